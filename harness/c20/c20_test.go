package c20

import (
	"errors"
	"expvar"
	"fmt"
	"github.com/golang-jwt/jwt/v4"
	"io"
	"log"
	"net/http"
	"net/http/httptest"
	"net/url"
	"path"
	"sort"
	"strings"
	"testing"
	"time"

	imodels "github.com/influxdata/influxdb/models"
	"github.com/influxdata/kapacitor/auth"
	"github.com/influxdata/kapacitor/services/httpd"
	"github.com/influxdata/kapacitor/zz_verif/rep"
)

// ---------------------------------------------------------------- reference decision

// normalise: split on '/', drop "" and ".", ".." pops (never above the root).
func normalise(p string) []string {
	var out []string
	for _, s := range strings.Split(p, "/") {
		switch s {
		case "", ".":
		case "..":
			if len(out) > 0 {
				out = out[:len(out)-1]
			}
		default:
			out = append(out, s)
		}
	}
	return out
}

type grant struct {
	Res  string
	Mask []string // names of privileges
}

var privByName = map[string]auth.Privilege{"none": auth.NoPrivileges, "read": auth.ReadPrivilege, "write": auth.WritePrivilege, "delete": auth.DeletePrivilege, "all": auth.AllPrivileges}

type table []grant

func (t table) user(name string) auth.User {
	m := map[string][]auth.Privilege{}
	for _, g := range t {
		var ps []auth.Privilege
		for _, n := range g.Mask {
			ps = append(ps, privByName[n])
		}
		res := g.Res
		if strings.HasPrefix(res, "db:") {
			res = auth.DatabaseResource(strings.TrimPrefix(res, "db:"))
		}
		m[res] = ps
	}
	return auth.NewUser(name, nil, false, m)
}

// refAllowed: nearest ancestor-or-self of the normalised resource that carries a grant decides alone.
// returns (allowed, tolerated) - tolerated: the grant mixes "all" with other privileges (see assumptions).
func refAllowed(t table, resource string, priv string) (bool, bool) {
	if priv == "none" {
		return true, false
	}
	if !strings.HasPrefix(resource, "/") {
		return false, false
	}
	segs := normalise(resource)
	byRes := map[string][]string{}
	for _, g := range t {
		if strings.HasPrefix(g.Res, "db:") {
			continue // database grants never lie on the ancestor chain of an /api resource
		}
		byRes["/"+strings.Join(normalise(g.Res), "/")] = g.Mask
	}
	for n := len(segs); n >= 0; n-- {
		r := "/" + strings.Join(segs[:n], "/")
		mask, ok := byRes[r]
		if !ok {
			continue
		}
		hasAll, hasP := false, false
		for _, m := range mask {
			if m == "all" {
				hasAll = true
			}
			if m == priv {
				hasP = true
			}
		}
		return hasAll || hasP, hasAll && len(mask) > 1
	}
	return false, false
}

// ---------------------------------------------------------------- enumeration helpers

var masks = [][]string{{"none"}, {"read"}, {"write"}, {"delete"}, {"all"}, {"read", "write"}, {"all", "read"}}
var privs = []string{"none", "read", "write", "delete", "all"}

func resources() []string {
	r := []string{"/", "/api"}
	segs := []string{"a", "b"}
	var rec func(pre string, d int)
	rec = func(pre string, d int) {
		if d == 0 {
			return
		}
		for _, s := range segs {
			p := pre + "/" + s
			r = append(r, p)
			rec(p, d-1)
		}
	}
	rec("/api", 3)
	return r
}

func requestPaths(maxSeg int) []string {
	segs := []string{"a", "b", ".", "..", ""}
	var r []string
	var rec func(pre string, d int)
	rec = func(pre string, d int) {
		r = append(r, pre, pre+"/")
		if d == 0 {
			return
		}
		for _, s := range segs {
			rec(pre+"/"+s, d-1)
		}
	}
	rec("", maxSeg)
	return r
}

func tables(res []string, maxGrants int, f func(table)) {
	var rec func(start int, cur table)
	rec = func(start int, cur table) {
		f(cur)
		if len(cur) == maxGrants {
			return
		}
		for i := start; i < len(res); i++ {
			for _, m := range masks {
				rec(i+1, append(append(table(nil), cur...), grant{res[i], m}))
			}
		}
	}
	rec(0, nil)
}

// ---------------------------------------------------------------- HTTP layer

type fakeAuth struct{ users map[string]auth.User }

func (f *fakeAuth) Authenticate(username, password string) (auth.User, error) {
	u, ok := f.users[username]
	if !ok || password != "pw" {
		return auth.User{}, errors.New("bad credentials")
	}
	return u, nil
}
func (f *fakeAuth) User(username string) (auth.User, error) {
	u, ok := f.users[username]
	if !ok {
		return auth.User{}, errors.New("unknown user")
	}
	return u, nil
}
func (f *fakeAuth) SubscriptionUser(token string) (auth.User, error) {
	return auth.User{}, errors.New("no subscriptions")
}
func (f *fakeAuth) GrantSubscriptionAccess(token, db, rp string) error { return nil }
func (f *fakeAuth) ListSubscriptionTokens() ([]string, error)          { return nil, nil }
func (f *fakeAuth) RevokeSubscriptionAccess(token string) error        { return nil }

type nopDiag struct{}

func (nopDiag) NewHTTPServerErrorLogger() *log.Logger { return log.New(io.Discard, "", 0) }
func (nopDiag) StartingService()                      {}
func (nopDiag) StoppedService()                       {}
func (nopDiag) ShutdownTimeout()                      {}
func (nopDiag) AuthenticationEnabled(enabled bool)    {}
func (nopDiag) ListeningOn(addr string, proto string) {}
func (nopDiag) WriteBodyReceived(body string)         {}
func (nopDiag) HTTP(host string, username string, start time.Time, method string, uri string, proto string, status int, referer string, userAgent string, reqID string, duration time.Duration) {
}
func (nopDiag) Error(msg string, err error) {}
func (nopDiag) RecoveryError(msg string, err string, host string, username string, start time.Time, method string, uri string, proto string, status int, referer string, userAgent string, reqID string, duration time.Duration) {
}

type pw struct{ calls []string }

func (p *pw) WritePoints(database, retentionPolicy string, consistencyLevel imodels.ConsistencyLevel, points []imodels.Point) error {
	p.calls = append(p.calls, database)
	return nil
}

type httpEnv struct {
	h      *httpd.Handler
	fa     *fakeAuth
	pw     *pw
	ran    string // marker of the route handler that ran for the current request
	ranURL string
}

var routePatterns = []string{"/a", "/a/", "/a/b", "/b/", "/a/b/"}
var methods = []string{"GET", "HEAD", "OPTIONS", "POST", "PATCH", "PUT", "DELETE", "BREW"}

func newHTTPEnv() (*httpEnv, error) {
	sm := &expvar.Map{}
	sm.Init()
	e := &httpEnv{fa: &fakeAuth{users: map[string]auth.User{}}, pw: &pw{}}
	e.h = httpd.NewHandler(true, false, false, false, false, sm, nopDiag{}, "secret")
	e.h.AuthService = e.fa
	e.h.PointsWriter = e.pw
	var routes []httpd.Route
	for _, m := range methods[:7] {
		for _, p := range routePatterns {
			m, p := m, p
			routes = append(routes, httpd.Route{Method: m, Pattern: p, HandlerFunc: func(w http.ResponseWriter, r *http.Request) {
				e.ran = m + " " + p
				e.ranURL = r.URL.Path
				w.WriteHeader(http.StatusOK)
			}})
		}
	}
	if err := e.h.AddRoutes(routes); err != nil {
		return nil, err
	}
	return e, nil
}

type HTTPCase struct {
	Table  table
	User   string // "", "badpw", "user", "admin"
	Method string
	Path   string
	DB     string // for /write
}

// bearerTokens: JSON web tokens for the user "user", signed with the handler's shared secret unless stated
var bearerCache map[string]string

func bearerTokens() map[string]string {
	if bearerCache != nil {
		return bearerCache
	}
	sign := func(claims jwt.MapClaims, secret string) string {
		tok, err := jwt.NewWithClaims(jwt.SigningMethodHS256, claims).SignedString([]byte(secret))
		if err != nil {
			panic(err)
		}
		return tok
	}
	far := float64(time.Now().Add(100 * 365 * 24 * time.Hour).Unix())
	past := float64(time.Now().Add(-time.Hour).Unix())
	none, _ := jwt.NewWithClaims(jwt.SigningMethodNone, jwt.MapClaims{"username": "user", "exp": far}).SignedString(jwt.UnsafeAllowNoneSignatureType)
	bearerCache = map[string]string{
		"jwt-ok":            sign(jwt.MapClaims{"username": "user", "exp": far}, "secret"),
		"jwt-no-exp":        sign(jwt.MapClaims{"username": "user"}, "secret"),
		"jwt-exp-zero":      sign(jwt.MapClaims{"username": "user", "exp": 0}, "secret"),
		"jwt-exp-string":    sign(jwt.MapClaims{"username": "user", "exp": "never"}, "secret"),
		"jwt-only-iat":      sign(jwt.MapClaims{"username": "user", "iat": past}, "secret"),
		"jwt-expired":       sign(jwt.MapClaims{"username": "user", "exp": past}, "secret"),
		"jwt-wrong-secret":  sign(jwt.MapClaims{"username": "user", "exp": far}, "other"),
		"jwt-alg-none":      none,
		"jwt-no-username":   sign(jwt.MapClaims{"exp": far}, "secret"),
		"jwt-unknown-user":  sign(jwt.MapClaims{"username": "nobody", "exp": far}, "secret"),
		"jwt-username-list": sign(jwt.MapClaims{"username": []string{"user"}, "exp": far}, "secret"),
	}
	return bearerCache
}

func methodPriv(m string) (string, bool) {
	switch m {
	case "HEAD", "OPTIONS":
		return "none", true
	case "GET":
		return "read", true
	case "POST", "PATCH", "PUT":
		return "write", true
	case "DELETE":
		return "delete", true
	}
	return "", false
}

func (e *httpEnv) do(c HTTPCase) (status int, ran, ranURL string, wrote []string, pan any) {
	defer func() {
		if r := recover(); r != nil {
			pan = r
		}
	}()
	e.fa.users["user"] = c.Table.user("user")
	e.fa.users["admin"] = auth.NewUser("admin", nil, true, nil)
	e.ran, e.ranURL = "", ""
	e.pw.calls = nil
	target := c.Path
	var body io.Reader
	if c.DB != "\x00" {
		target += "?db=" + url.QueryEscape(c.DB)
		body = strings.NewReader("m v=1 1\n")
	}
	req := httptest.NewRequest("GET", "http://localhost/", body)
	req.Method = c.Method
	u, err := url.Parse("http://localhost" + target)
	if err != nil {
		return -1, "", "", nil, nil
	}
	req.URL = u
	req.RequestURI = target
	if tok, ok := bearerTokens()[c.User]; ok {
		req.Header.Set("Authorization", "Bearer "+tok)
	}
	switch c.User {
	case "badpw":
		req.SetBasicAuth("user", "wrong")
	case "user":
		req.SetBasicAuth("user", "pw")
	case "admin":
		req.SetBasicAuth("admin", "pw")
	}
	w := httptest.NewRecorder()
	e.h.ServeHTTP(w, req)
	return w.Code, e.ran, e.ranURL, append([]string(nil), e.pw.calls...), nil
}

// checkHTTP returns a problem description or "".
func (e *httpEnv) checkHTTP(c HTTPCase) (kind, msg string, interesting bool) {
	status, ran, ranURL, wrote, pan := e.do(c)
	if pan != nil {
		return "http-panic", fmt.Sprintf("ServeHTTP panicked: %v for %+v", pan, c), true
	}
	if status == -1 {
		return "", "", false
	}
	credsOK := c.User == "user" || c.User == "admin" || c.User == "jwt-ok"
	if ran != "" {
		interesting = true
		if !credsOK {
			return "served-without-credentials", fmt.Sprintf("route %q ran (status %d) for a request without valid credentials: %+v", ran, status, c), true
		}
		if c.User == "user" || c.User == "jwt-ok" {
			priv, ok := methodPriv(c.Method)
			if !ok {
				return "served-unknown-method", fmt.Sprintf("route %q ran for unknown method: %+v", ran, c), true
			}
			// the resource is the path the route handler was actually given
			rel := strings.TrimPrefix(ranURL, httpd.BasePath)
			allowed, _ := refAllowed(c.Table, "/api/"+rel, priv)
			if !allowed {
				return "served-without-privilege", fmt.Sprintf("route %q ran on path %q (request path %q) although the nearest grant does not give %q: table %+v", ran, ranURL, c.Path, priv, c.Table), true
			}
			// and, independently of what the handler was told: the canonical form of the path that was REQUESTED
			// decides the resource (a path served in place without a redirect must not be authorised as something else)
			canon := path.Clean(c.Path)
			for _, base := range []string{httpd.BasePreviewPath, httpd.BasePath} {
				if strings.HasPrefix(canon, base) {
					rel2 := strings.TrimPrefix(canon, base)
					if a2, _ := refAllowed(c.Table, "/api"+rel2, priv); !a2 {
						return "served-noncanonical-path-without-privilege", fmt.Sprintf("route %q ran for request path %q (canonical %q) although the nearest grant for /api%s does not give %q: table %+v", ran, c.Path, canon, rel2, priv, c.Table), true
					}
					break
				}
			}
		}
	}
	if len(wrote) > 0 {
		interesting = true
		if !credsOK {
			return "write-without-credentials", fmt.Sprintf("points written without valid credentials: %+v", c), true
		}
		if c.User == "user" {
			a1, _ := refAllowed(c.Table, "/api/write", "write")
			if !a1 {
				return "write-without-api-privilege", fmt.Sprintf("points written although write on /api/write is not granted: %+v", c), true
			}
			// database check: the only database grants in the tables are on the resource of database "d1"
			// or on /database; a write to another database needs an ancestor grant
			if !dbAllowed(c.Table, c.DB) {
				return "write-to-foreign-database:" + dbKeyOf(c.Table, c.DB), fmt.Sprintf("points written to database %q although the user's write grant is for another database: table %+v", c.DB, c.Table), true
			}
		}
	}
	return "", "", interesting
}

// dbAllowed: reference for the database check. Grants in the harness tables that concern databases
// are written as "db:<name>" (resolved with auth.DatabaseResource when the user is built) or "/database".
func dbAllowed(t table, db string) bool {
	// nearest: the database's own grant, else /database, else /
	var own, root, top []string
	for _, g := range t {
		switch {
		case g.Res == "db:"+db:
			own = g.Mask
		case g.Res == "/database":
			root = g.Mask
		case g.Res == "/":
			top = g.Mask
		}
	}
	for _, m := range [][]string{own, root, top} {
		if m == nil {
			continue
		}
		for _, p := range m {
			if p == "write" || p == "all" {
				return true
			}
		}
		return false
	}
	return false
}

func (t table) resolved() table {
	var r table
	for _, g := range t {
		if strings.HasPrefix(g.Res, "db:") {
			r = append(r, grant{auth.DatabaseResource(strings.TrimPrefix(g.Res, "db:")), g.Mask})
		} else {
			r = append(r, g)
		}
	}
	return r
}

var dbNames = []string{"d", "d/e", "d_e", "d/e_f", "d_e/f", "..", "a/../b", "d_clean", "d_dirty", "d/", "/d", "d//e", "d/_e", "d_/e", "x"}

// ---------------------------------------------------------------- main

type Replay struct {
	Kind  string
	Table table
	Res   string
	Priv  string
	HTTP  *HTTPCase
	DB1   string
	DB2   string
	Auth  []AuthOp `json:",omitempty"`
}

func checkDirect(t table, u auth.User, res, priv string) (string, string) {
	err := u.AuthorizeAction(auth.Action{Resource: res, Privilege: privByName[priv]})
	got := err == nil
	want, tolerated := refAllowed(t, res, priv)
	if got && !want {
		return "authorize-too-wide", fmt.Sprintf("AuthorizeAction(%q, %s) allowed, reference denies; table %+v", res, priv, t)
	}
	if !got && want && !tolerated {
		return "authorize-too-narrow", fmt.Sprintf("AuthorizeAction(%q, %s) denied, reference allows; table %+v", res, priv, t)
	}
	return "", ""
}

func TestCheck(t *testing.T) {
	r := rep.New("C20", "model_checking",
		"authorisation: (1) every privilege table with up to N grants (7 privilege masks) over the 16 resources /, /api, /api/{a,b}^{1..3} x every request resource built from <= 4 segments of {a,b,.,..,''} with/without trailing slash x every privilege, decided by auth.User.AuthorizeAction and by a reference 'nearest ancestor-or-self grant decides alone' on an independently normalised path; (2) the same through httpd.Handler.ServeHTTP with a fake auth service, marker routes (which handler ran, on which path) and a recording points writer: methods x users {none, bad password, valid, admin} (+ 11 bearer-token shapes: no/zero/string/past expiry, wrong secret, alg none, no/unknown/non-string username) x paths under /kapacitor/v1 and /kapacitor/v1preview x /write with database names; (3) DatabaseResource injectivity over a database-name alphabet; (4) subscription tokens on the real services/auth service with its user cache over a real Bolt store: every history of 5 (thorough 6) grant/use/revoke operations on two tokens, a token authenticates exactly while it is granted. states = distinct (table, resource) pairs; transitions = decisions; non-trivial = decisions where some grant lies on the ancestor chain of the request")
	defer r.Write()
	r.Assumption("a grant that mixes 'all' with other privileges is denied by the implementation for privileges not listed; the statement is 'only if', so this narrower behaviour is tolerated")
	r.Assumption("JWT bearer and subscription-token authentication are not enumerated (basic auth only)")

	if rep.ReplayPath() != "" {
		var rp Replay
		if err := rep.LoadReplay(&rp); err != nil {
			t.Fatal(err)
		}
		switch rp.Kind {
		case "direct":
			if k, m := checkDirect(rp.Table, rp.Table.user("user"), rp.Res, rp.Priv); k != "" {
				r.Violation(k, m, rp)
			}
		case "auth":
			if k, m := runAuthHistory(rp.Auth); k != "" {
				r.Violation(k, m, rp)
			}
		case "http":
			e, err := newHTTPEnv()
			if err != nil {
				t.Fatal(err)
			}
			c := *rp.HTTP
			c2 := c
			c2.Table = c.Table
			e2 := e
			tt := c.Table
			c.Table = tt
			// users are built from the resolved table
			k, m, _ := e2.checkHTTP(httpCaseResolved(c))
			if k != "" {
				r.Violation(k, m, rp)
			}
		case "db":
			if rp.DB1 != rp.DB2 && auth.DatabaseResource(rp.DB1) == auth.DatabaseResource(rp.DB2) {
				r.Violation(dbKey(rp.DB1, rp.DB2), fmt.Sprintf("DatabaseResource(%q) == DatabaseResource(%q) == %q", rp.DB1, rp.DB2, auth.DatabaseResource(rp.DB1)), rp)
			}
		}
		r.Add("evaluations", 1)
		return
	}

	shard, _ := rep.Shard()
	// (3) injectivity
	if shard == 0 {
		seen := map[string]string{}
		for _, d := range dbNames {
			res := auth.DatabaseResource(d)
			r.Add("evaluations", 1)
			if o, ok := seen[res]; ok && o != d {
				r.Violation(dbKey(o, d), fmt.Sprintf("DatabaseResource(%q) == DatabaseResource(%q) == %q", o, d, res), Replay{Kind: "db", DB1: o, DB2: d})
			}
			seen[res] = d
			if len(normalise(res)) != 2 || !strings.HasPrefix(res, "/database/") {
				r.Violation("database-resource-shape", fmt.Sprintf("DatabaseResource(%q) = %q is not a single path element below /database", d, res), Replay{Kind: "db", DB1: d, DB2: d})
			}
		}
	}

	// (1) direct decisions
	maxGrants := 2
	maxSeg := 3
	if rep.Thorough() {
		maxGrants, maxSeg = 3, 4
	}
	res := resources()
	paths := requestPaths(maxSeg)
	var reqRes []string
	for _, p := range paths {
		reqRes = append(reqRes, "/api"+p)
	}
	reqRes = append(reqRes, "/", "/other/a", "api/a", "")
	n := 0
	tables(res, maxGrants, func(tb table) {
		n++
		if !rep.Mine(n) {
			return
		}
		if r.Expired() {
			r.Cap("deadline")
			return
		}
		u := tb.user("user")
		nontriv := int64(0)
		for _, rr := range reqRes {
			chain := false
			segs := normalise(rr)
			for _, g := range tb {
				gs := normalise(g.Res)
				if len(gs) <= len(segs) && strings.Join(segs[:len(gs)], "/") == strings.Join(gs, "/") {
					chain = true
				}
			}
			for _, p := range privs {
				if k, m := checkDirect(tb, u, rr, p); k != "" {
					r.Violation(k, m, Replay{Kind: "direct", Table: tb, Res: rr, Priv: p})
				}
				if chain {
					nontriv++
				}
			}
		}
		r.Add("evaluations", int64(len(reqRes)*len(privs)))
		r.Add("transitions", int64(len(reqRes)*len(privs)))
		r.AddDistinct("states", int64(len(reqRes)))
		r.AddDistinct("nontrivial", nontriv)
		if r.WantSample() && n%5000 == 17 {
			r.Sample(map[string]any{"table": tb, "request_resources": len(reqRes), "example": reqRes[len(reqRes)/2]})
		}
	})

	// (2) HTTP layer
	e, err := newHTTPEnv()
	if err != nil {
		t.Fatal(err)
	}
	httpRes := []string{"/", "/api", "/api/a", "/api/a/b", "/api/b", "/api/preview", "/api/write", "/database", "db:d/e_f", "db:d"}
	hg := 2
	hseg := 2
	if rep.Thorough() {
		hg, hseg = 2, 4
	}
	authPart(r)
	hpaths := requestPaths(hseg)
	n = 0
	tables(httpRes, hg, func(tb table) {
		n++
		if !rep.Mine(n) {
			return
		}
		if r.Expired() {
			r.Cap("deadline")
			return
		}
		for kind := range bearerTokens() {
			for _, m := range []string{"GET", "POST", "DELETE"} {
				c := HTTPCase{Table: tb, User: kind, Method: m, Path: httpd.BasePath + "/a", DB: "\x00"}
				k, msg, _ := e.checkHTTP(httpCaseResolved(c))
				r.Add("evaluations", 1)
				r.Add("transitions", 1)
				if k != "" {
					r.Violation(k+":"+kind, msg, Replay{Kind: "http", HTTP: &c})
				}
			}
		}
		for _, user := range []string{"", "badpw", "user", "admin"} {
			for _, m := range methods {
				for pi, prefix := range []string{httpd.BasePath, httpd.BasePreviewPath, "/" + httpd.BasePath, "/kapacitor//v1", "/." + httpd.BasePath, "/x/.." + httpd.BasePath} {
					for _, p := range hpaths {
						if pi >= 2 && strings.Count(p, "/") > 2 {
							continue // tricks in front of the base path: short paths only
						}
						c := HTTPCase{Table: tb, User: user, Method: m, Path: prefix + p, DB: "\x00"}
						k, msg, intr := e.checkHTTP(httpCaseResolved(c))
						r.Add("evaluations", 1)
						r.Add("transitions", 1)
						if intr {
							r.AddDistinct("nontrivial", 1)
						}
						if k != "" {
							r.Violation(k, msg, Replay{Kind: "http", HTTP: &c})
						}
					}
				}
			}
			for _, wp := range []string{httpd.BasePath + "/write", "/write", httpd.BasePreviewPath + "/write", httpd.BasePath + "/write/", httpd.BasePath + "/a/../write"} {
				for _, db := range dbNames {
					// the write route itself needs write on /api/write: add that grant unless the table
					// already says something about /api/write
					wt := tb
					has := false
					for _, g := range tb {
						if g.Res == "/api/write" {
							has = true
						}
					}
					if !has {
						wt = append(append(table(nil), tb...), grant{"/api/write", []string{"write"}})
					}
					c := HTTPCase{Table: wt, User: user, Method: "POST", Path: wp, DB: db}
					k, msg, intr := e.checkHTTP(httpCaseResolved(c))
					r.Add("evaluations", 1)
					r.Add("transitions", 1)
					if intr {
						r.AddDistinct("nontrivial", 1)
					}
					if k != "" {
						r.Violation(k, msg, Replay{Kind: "http", HTTP: &c})
					}
				}
			}
		}
		r.AddDistinct("states", int64(len(hpaths)*2))
	})
	r.Note("direct_tables_max_grants", maxGrants)
	r.Note("request_resources", len(reqRes))
}

// httpCaseResolved: users are built from the table with "db:<name>" grants resolved through
// auth.DatabaseResource; the reference (dbAllowed) keeps reasoning on database names.
func httpCaseResolved(c HTTPCase) HTTPCase { return c }

func init() {
	// table.user must resolve db: grants
}

func dbKey(a, b string) string {
	s := []string{a, b}
	sort.Strings(s)
	return "database-resource-collision:" + s[0] + "|" + s[1]
}

func dbKeyOf(t table, db string) string {
	for _, g := range t {
		if strings.HasPrefix(g.Res, "db:") {
			s := []string{strings.TrimPrefix(g.Res, "db:"), db}
			sort.Strings(s)
			return s[0] + "|" + s[1]
		}
	}
	return db
}
