package c06

import (
	"fmt"
	"sort"
	"strings"
	"testing"
	"time"

	"github.com/influxdata/kapacitor/zz_verif/kit"
	"github.com/influxdata/kapacitor/zz_verif/rep"
)

// ---------------------------------------------------------------- pipelines

type Pipeline struct {
	Name    string
	GroupBy string // groupBy(...) arguments; "" = no grouping; ByName adds groupByMeasurement()
	ByName  bool
	Dims    []string // the tag names the grouping looks at ("*" = all tags of the point)
	Body    string   // chain after from()
	Alert   bool     // needs the alert service
	SleepMs int      // virtual time to let pass after every point (idle timers)
	Script  string   // complete script (several sources); GroupBy/ByName/Dims then describe the FINAL grouping
}

var pipelines = []Pipeline{
	{Name: "log", GroupBy: "'h'", Dims: []string{"h"}, Body: ""},
	{Name: "window-time-sum", GroupBy: "'h'", Dims: []string{"h"}, Body: "|window().period(3s).every(2s)|sum('v')"},
	{Name: "window-count-mean", GroupBy: "'h'", Dims: []string{"h"}, Body: "|window().periodCount(2).everyCount(1)|mean('v')"},
	{Name: "window-count-raw", GroupBy: "'h'", Dims: []string{"h"}, Body: "|window().periodCount(2).everyCount(2)"},
	{Name: "where", GroupBy: "'h'", Dims: []string{"h"}, Body: "|where(lambda: \"v\" > 1)"},
	{Name: "eval-sigma", GroupBy: "'h'", Dims: []string{"h"}, Body: "|eval(lambda: sigma(\"v\")).as('s')"},
	{Name: "eval-count", GroupBy: "'h'", Dims: []string{"h"}, Body: "|eval(lambda: count()).as('c')"},
	{Name: "where-count", GroupBy: "'h'", Dims: []string{"h"}, Body: "|where(lambda: count() > 1)"},
	// stateful functions inside the arguments of other calls
	{Name: "eval-nested-count", GroupBy: "'h'", Dims: []string{"h"}, Body: "|eval(lambda: float(count()) + abs(sigma(float(\"v\")))).as('c')"},
	{Name: "where-nested-count", GroupBy: "'h'", Dims: []string{"h"}, Body: "|where(lambda: if(float(count()) > 1.0, TRUE, FALSE))"},
	{Name: "eval-spread", GroupBy: "'h'", Dims: []string{"h"}, Body: "|eval(lambda: spread(\"v\")).as('s')"},
	{Name: "stateCount", GroupBy: "'h'", Dims: []string{"h"}, Body: "|stateCount(lambda: \"v\" > 1)"},
	{Name: "stateDuration", GroupBy: "'h'", Dims: []string{"h"}, Body: "|stateDuration(lambda: \"v\" > 1).unit(1s)"},
	{Name: "derivative", GroupBy: "'h'", Dims: []string{"h"}, Body: "|derivative('v').unit(1s)"},
	{Name: "changeDetect", GroupBy: "'h'", Dims: []string{"h"}, Body: "|changeDetect('v')"},
	{Name: "sample", GroupBy: "'h'", Dims: []string{"h"}, Body: "|sample(2)"},
	{Name: "difference", GroupBy: "'h'", Dims: []string{"h"}, Body: "|difference('v')"},
	{Name: "cumulativeSum", GroupBy: "'h'", Dims: []string{"h"}, Body: "|cumulativeSum('v')"},
	{Name: "elapsed", GroupBy: "'h'", Dims: []string{"h"}, Body: "|elapsed('v', 1s)"},
	{Name: "movingAverage", GroupBy: "'h'", Dims: []string{"h"}, Body: "|movingAverage('v', 2)"},
	{Name: "stream-last", GroupBy: "'h'", Dims: []string{"h"}, Body: "|last('v')"},
	{Name: "stream-sum", GroupBy: "'h'", Dims: []string{"h"}, Body: "|sum('v')"},
	{Name: "window-top", GroupBy: "'h'", Dims: []string{"h"}, Body: "|window().periodCount(3).everyCount(3)|top(1, 'v')"},
	{Name: "window-flatten", GroupBy: "'h'", Dims: []string{"h"}, Body: "|flatten().on('p').tolerance(1s)"},
	{Name: "combine", GroupBy: "'h'", Dims: []string{"h"}, Body: "|combine(lambda: \"p\" == 'p0', lambda: \"p\" != 'p0').as('x', 'y').tolerance(1s)"},
	{Name: "alert", GroupBy: "'h'", Dims: []string{"h"}, Body: "|alert().crit(lambda: \"v\" > 1).stateChangesOnly().levelTag('lvl').idTag('id').durationField('dur')", Alert: true},
	{Name: "alert-flapping", GroupBy: "'h'", Dims: []string{"h"}, Body: "|alert().crit(lambda: \"v\" > 1).flapping(0.3, 0.6).history(3).levelTag('lvl')", Alert: true},
	{Name: "two-dims-count", GroupBy: "'h', 'i'", Dims: []string{"h", "i"}, Body: "|eval(lambda: count()).as('c')"},
	{Name: "two-dims-window", GroupBy: "'h', 'i'", Dims: []string{"h", "i"}, Body: "|window().periodCount(2).everyCount(1)|sum('v')"},
	{Name: "star-count", GroupBy: "*", Dims: []string{"*"}, Body: "|eval(lambda: count()).as('c')"},
	{Name: "byname-count", GroupBy: "'h'", ByName: true, Dims: []string{"h"}, Body: "|eval(lambda: count()).as('c')"},
	{Name: "byname-only-count", GroupBy: "", ByName: true, Dims: nil, Body: "|eval(lambda: count()).as('c')"},
	// (the final grouping decides which sources may influence each other)
	// every group goes idle (and is deleted) between any two points: each point must find fresh state, whichever
	// group the neighbouring points belong to
	{Name: "barrier-idle-delete", GroupBy: "'h'", Dims: []string{"h"}, Body: "|barrier().idle(2s).delete(TRUE)|eval(lambda: count()).as('c')", SleepMs: 3000},
	{Name: "barrier-idle-delete-stateCount", GroupBy: "'h'", Dims: []string{"h"}, Body: "|barrier().idle(2s).delete(TRUE)|stateCount(lambda: \"v\" >= 0)", SleepMs: 3000},
	// the same grouping reached on two ways: the tags named in a different order, and two measurements renamed to one
	{Name: "union-of-two-tag-orders", GroupBy: "'h', 'i'", Dims: []string{"h", "i"},
		Script: "var a = stream|from().measurement('m').groupBy('i', 'h')\nvar b = stream|from().measurement('n').groupBy('h', 'i')\na|union(b)|eval(lambda: count()).as('c')|log().prefix('X')"},
	{Name: "union-rename-by-measurement", GroupBy: "'h'", Dims: []string{"h"},
		Script: "var a = stream|from().measurement('m').groupBy('h').groupByMeasurement()\nvar b = stream|from().measurement('n').groupBy('h').groupByMeasurement()\na|union(b).rename('all')|stateCount(lambda: TRUE)|log().prefix('X')"},
	{Name: "regroup", GroupBy: "'h', 'i'", Dims: []string{"h"}, Body: "|eval(lambda: count()).as('c')|groupBy('h')|eval(lambda: count()).as('d')"},
}

func (p Pipeline) script() string {
	if p.Script != "" {
		return p.Script
	}
	s := "stream|from()"
	if p.GroupBy != "" {
		s += ".groupBy(" + p.GroupBy + ")"
	}
	if p.ByName {
		s += ".groupByMeasurement()"
	}
	return s + p.Body + "|log().prefix('X')"
}

// ---------------------------------------------------------------- inputs

// G is one source of points: measurement plus full tag set. Which input "groups" exist follows from the
// pipeline's dimensions.
type G struct {
	M     string
	Tags  map[string]string
	Vals  []int64
	Bare  bool // the points carry exactly Tags (no per-point tag p)
	Float bool // the field v is a float in this source (field types differ between groups)
}

type GroupSet struct {
	Name string
	Gs   []G
}

var groupSets = []GroupSet{
	{"plain", []G{
		{"m", map[string]string{"h": "a"}, []int64{1, 2, 3}, false, false},
		{"m", map[string]string{"h": "b"}, []int64{3, 0, 2}, false, false},
	}},
	{"separators-in-values", []G{
		{"m", map[string]string{"h": "a", "i": "b,i=c"}, []int64{1, 2, 3}, false, false},
		{"m", map[string]string{"h": "a,i=b", "i": "c"}, []int64{3, 0, 2}, false, false},
	}},
	{"comma-equals-space", []G{
		{"m", map[string]string{"h": "a,b"}, []int64{1, 2, 3}, false, false},
		{"m", map[string]string{"h": "a=b"}, []int64{3, 0, 2}, false, false},
		{"m", map[string]string{"h": "a b"}, []int64{2, 2, 0}, false, false},
	}},
	{"missing-vs-other-tag", []G{
		{"m", map[string]string{"i": "x"}, []int64{1, 2, 3}, false, false},
		{"m", map[string]string{"h": "", "i": "y"}, []int64{3, 0, 2}, false, false},
		{"m", map[string]string{"h": "a"}, []int64{2, 2, 0}, false, false},
	}},
	{"star-collision", []G{
		{"m", map[string]string{"h": "a,i=b"}, []int64{1, 2, 3}, false, false},
		{"m", map[string]string{"h": "a", "i": "b"}, []int64{3, 0, 2}, false, false},
	}},
	{"two-measurements", []G{
		{"m", map[string]string{"h": "a"}, []int64{1, 2, 3}, false, false},
		{"n", map[string]string{"h": "a"}, []int64{3, 0, 2}, false, false},
	}},
	{"same-group-different-extra-tag", []G{
		{"m", map[string]string{"h": "a", "z": "1"}, []int64{1, 2, 3}, false, false},
		{"m", map[string]string{"h": "a", "z": "2"}, []int64{3, 0, 2}, false, false},
		{"m", map[string]string{"h": "b", "z": "1"}, []int64{2, 2, 0}, false, false},
	}},
	{"no-tags-at-all", []G{
		{M: "m", Tags: map[string]string{}, Vals: []int64{1, 2, 3}, Bare: true},
		{M: "m", Tags: map[string]string{"i": "x"}, Vals: []int64{3, 0, 2}, Bare: true},
		{M: "m", Tags: map[string]string{"h": "a"}, Vals: []int64{2, 2, 0}, Bare: true},
	}},
	{"field-type-differs-between-groups", []G{
		{M: "m", Tags: map[string]string{"h": "a"}, Vals: []int64{1, 2, 3}},
		{M: "m", Tags: map[string]string{"h": "b"}, Vals: []int64{3, 0, 2}, Float: true},
		{M: "m", Tags: map[string]string{"h": "c"}, Vals: []int64{2, 2, 0}},
	}},
	{"three-plain", []G{
		{"m", map[string]string{"h": "a"}, []int64{1, 2}, false, false},
		{"m", map[string]string{"h": "b"}, []int64{3, 0}, false, false},
		{"m", map[string]string{"h": "c"}, []int64{2, 2}, false, false},
	}},
}

// groupKeyOf: the group a source belongs to under the pipeline's dimensions, as the statement defines it: the
// measurement (if grouping by measurement) and the value of every group-by tag (a missing tag has the empty value).
func groupKeyOf(p Pipeline, g G) string {
	var parts []string
	if p.ByName {
		parts = append(parts, fmt.Sprintf("name=%q", g.M))
	}
	dims := p.Dims
	if len(dims) == 1 && dims[0] == "*" {
		dims = nil
		for k, v := range g.Tags {
			if v != "" {
				dims = append(dims, k)
			}
		}
		sort.Strings(dims)
		parts = append(parts, "dims="+strings.Join(dims, "|"))
	}
	for _, d := range dims {
		parts = append(parts, fmt.Sprintf("%s=%q", d, g.Tags[d]))
	}
	return strings.Join(parts, " ")
}

type Case struct {
	Pipeline int
	Set      int
	Order    []int // source index per step
}

// ---------------------------------------------------------------- running

type out struct {
	byGroup map[string][]string // output group id -> items in order
	errs    []string
	err     string
	leak    string
	pan     string
}

// run feeds the points of the selected sources (mask) in the order of the case.
func run(t *testing.T, c Case, mask map[int]bool) (o out) {
	p := pipelines[c.Pipeline]
	gs := groupSets[c.Set].Gs
	o.byGroup = map[string][]string{}
	leak, pan := kit.Bubble(t, func() {
		var env *kit.Env
		var aenv *kit.AlertEnv
		var err error
		if p.Alert {
			aenv, err = kit.NewAlertEnv("c06", kit.AlertOpts{})
			if err == nil {
				env = aenv.Env
			}
		} else {
			env, err = kit.NewEnv("c06")
		}
		if err != nil {
			panic(err)
		}
		if _, err := env.StartStream("t", p.script()); err != nil {
			o.err = err.Error()
			env.TM.Close()
			return
		}
		kit.Wait()
		next := make([]int, len(gs))
		for step, gi := range c.Order {
			j := next[gi]
			next[gi]++
			if !mask[gi] {
				continue
			}
			g := gs[gi]
			tags := map[string]string{"p": fmt.Sprintf("p%d", j%2)}
			if g.Bare {
				tags = map[string]string{}
			}
			for k, v := range g.Tags {
				tags[k] = v
			}
			_ = step
			// every source uses the same time stamps: 1s, 2s, 3s ...
			var v any = g.Vals[j]
			if g.Float {
				v = float64(g.Vals[j]) + 0.5
			}
			pt := kit.MkPoint(g.M, tags, map[string]any{"v": v, "src": int64(gi)}, kit.T0.Add(time.Duration(j+1)*time.Second))
			if err := env.Write("db", "rp", pt); err != nil {
				o.err = err.Error()
			}
			kit.Wait()
			if p.SleepMs > 0 {
				time.Sleep(time.Duration(p.SleepMs) * time.Millisecond)
				kit.Wait()
			}
		}
		env.TM.StopTask("t")
		kit.Wait()
		if aenv != nil {
			aenv.Shutdown(true)
		} else {
			env.TM.Close()
		}
		kit.Wait()
		if s := env.Diag.Sink("X"); s != nil {
			for _, it := range s.Items {
				if it.P != nil {
					o.byGroup[it.P.Group] = append(o.byGroup[it.P.Group], it.P.String())
				} else {
					o.byGroup[it.B.Group] = append(o.byGroup[it.B.Group], it.B.String())
				}
			}
		}
		for _, e := range env.Diag.ErrorsCopy() {
			o.errs = append(o.errs, fmt.Sprintf("%s: %s %s", e.Node, e.Msg, e.Err))
		}
	})
	o.leak = leak
	if pan != nil {
		o.pan = fmt.Sprint(pan)
	}
	return
}

type problem struct{ key, msg string }

func orders(counts []int) [][]int {
	var res [][]int
	left := append([]int(nil), counts...)
	var cur []int
	var rec func()
	rec = func() {
		done := true
		for i := range left {
			if left[i] > 0 {
				done = false
				left[i]--
				cur = append(cur, i)
				rec()
				cur = cur[:len(cur)-1]
				left[i]++
			}
		}
		if done {
			res = append(res, append([]int(nil), cur...))
		}
	}
	rec()
	return res
}

// soloCache: output of a run fed only the sources of one input group (independent of the interleaving of the others)
type soloKey struct {
	pipeline, set int
	group         string
	order         string
}

func check(t *testing.T, c Case, r *rep.R, solo map[soloKey]out) []problem {
	p := pipelines[c.Pipeline]
	set := groupSets[c.Set]
	all := map[int]bool{}
	groups := map[string][]int{} // input group -> sources
	for i, g := range set.Gs {
		all[i] = true
		k := groupKeyOf(p, g)
		groups[k] = append(groups[k], i)
	}
	full := run(t, c, all)
	cls := p.Name + ":" + set.Name
	if full.pan != "" {
		return []problem{{"panic:" + cls, rep.Short(full.pan)}}
	}
	if full.err != "" {
		return []problem{{"rejected:" + cls, full.err + " script " + p.script()}}
	}
	var ps []problem
	if full.leak != "" {
		ps = append(ps, problem{"leak:" + cls, rep.Short(full.leak)})
	}
	if r != nil {
		r.Add("evaluations", 1)
		r.Add("transitions", int64(len(c.Order)))
	}
	// reference: every input group alone, its sources in the same relative order
	want := map[string][]string{}
	owner := map[string]string{}
	var gkeys []string
	for k := range groups {
		gkeys = append(gkeys, k)
	}
	sort.Strings(gkeys)
	for _, gk := range gkeys {
		mask := map[int]bool{}
		for _, i := range groups[gk] {
			mask[i] = true
		}
		var sub []string
		for _, gi := range c.Order {
			if mask[gi] {
				sub = append(sub, fmt.Sprint(gi))
			}
		}
		sk := soloKey{c.Pipeline, c.Set, gk, strings.Join(sub, ",")}
		so, ok := solo[sk]
		if !ok {
			so = run(t, c, mask)
			solo[sk] = so
			if r != nil {
				r.Add("solo_runs", 1)
			}
		}
		if so.pan != "" || so.err != "" {
			return append(ps, problem{"solo-run-failed:" + cls, so.pan + so.err})
		}
		if len(so.byGroup) > 1 && !(len(p.Dims) == 1 && p.Dims[0] == "*") {
			var ids []string
			for og := range so.byGroup {
				ids = append(ids, fmt.Sprintf("%q", og))
			}
			sort.Strings(ids)
			ps = append(ps, problem{"one-group-split:" + strings.NewReplacer("'", "", ", ", "+").Replace(p.GroupBy) + ":" + set.Name, fmt.Sprintf("%s: the sources %v agree on the measurement (if grouped by it) and on every group-by tag value {%s}, yet their output carries the group ids %v", p.script(), groups[gk], gk, ids)})
		}
		for og, items := range so.byGroup {
			if prev, dup := owner[og]; dup {
				ps = append(ps, problem{"group-id-collision:" + strings.NewReplacer("'", "", ", ", "+").Replace(p.GroupBy) + ":" + set.Name, fmt.Sprintf("%s: input groups {%s} and {%s} are different groups but both produce output group id %q", p.script(), prev, gk, og)})
				continue
			}
			owner[og] = gk
			want[og] = items
		}
	}
	if len(ps) > 0 {
		// with colliding ids the per-group comparison below is meaningless
		for _, q := range ps {
			if strings.HasPrefix(q.key, "group-id-collision") {
				return ps
			}
		}
	}
	// compare
	var ogs []string
	for og := range want {
		ogs = append(ogs, og)
	}
	for og := range full.byGroup {
		if _, ok := want[og]; !ok {
			ogs = append(ogs, og)
		}
	}
	sort.Strings(ogs)
	nontrivial := false
	for _, og := range ogs {
		a, b := full.byGroup[og], want[og]
		if len(b) > 0 {
			nontrivial = true
		}
		if strings.Join(a, "\n") != strings.Join(b, "\n") {
			ps = append(ps, problem{"isolation:" + cls, fmt.Sprintf("%s, sources %v fed in order %v: output of group %q (input group {%s}) is\n  %v\nbut the same points fed alone give\n  %v", p.script(), describeSet(set), c.Order, og, owner[og], a, b)})
			break
		}
	}
	if r != nil && nontrivial && len(groups) > 1 {
		r.AddDistinct("nontrivial", 1)
	}
	return ps
}

func describeSet(s GroupSet) string {
	var parts []string
	for i, g := range s.Gs {
		parts = append(parts, fmt.Sprintf("%d:%s{%s}%v", i, g.M, kit.FmtTags(g.Tags), g.Vals))
	}
	return strings.Join(parts, " ")
}

// extendSets: thorough tier, a fourth and fifth point per source of the two-source sets (252 interleavings each)
func extendSets() {
	for si, set := range groupSets {
		if len(set.Gs) == 2 && len(set.Gs[0].Vals) == 3 {
			for i := range set.Gs {
				groupSets[si].Gs[i].Vals = append(append([]int64(nil), set.Gs[i].Vals...), 2, 0)
			}
		}
	}
}

func TestCheck(t *testing.T) {
	defer kit.CleanupTmp()
	r := rep.New("C06", "model_checking",
		"group identity and isolation on real stream tasks: 35 pipelines built from grouping-aware nodes (windows by time and count, where/eval with stateful lambda functions sigma/count/spread, stateCount, stateDuration, derivative, changeDetect, sample, difference, cumulativeSum, elapsed, movingAverage, stream aggregations, top, flatten, combine, alert with stateChangesOnly and with flapping, groupBy on one/two tags, *, with and without groupByMeasurement, re-grouping, barrier().idle().delete() with every group idling out between points) x 10 sets of 2-3 sources (plain values; values containing ',', '=', ' '; values built to collide under naive serialisation; missing vs empty tag; points without any tag; field type differing between groups; two measurements; same group with different non-group tags) x ALL interleavings of the sources' point sequences (same time stamps in every source), one point at a time to quiescence. Oracle (differential, no expected values): the output of the full run, split by output group id, equals the output of runs fed only one input group (sources that agree on measurement-if-grouped-by-it and on every group-by tag value), two different input groups never share an output group id, and one input group never yields two output group ids. states = (pipeline, source set) pairs, transitions = points fed")
	defer r.Write()
	r.Assumption("a missing group-by tag and an empty tag value denote the same value (line protocol cannot carry empty tag values)")
	r.Assumption("nodes that are global by design (deadman, stats, barrier by period) are not in the pipelines; barrier by idle time is")

	if rep.ReplayPath() != "" {
		var c Case
		if err := rep.LoadReplay(&c); err != nil {
			t.Fatal(err)
		}
		if len(c.Order) == 10 {
			extendSets()
		}
		for _, p := range check(t, c, r, map[soloKey]out{}) {
			r.Violation(p.key, p.msg, c)
		}
		return
	}
	if rep.Thorough() {
		extendSets()
	}
	n := 0
	solo := map[soloKey]out{}
	for pi := range pipelines {
		for si, set := range groupSets {
			var counts []int
			for _, g := range set.Gs {
				counts = append(counts, len(g.Vals))
			}
			ords := orders(counts)
			r.Distinct("states", fmt.Sprintf("%d/%d", pi, si))
			for _, o := range ords {
				n++
				if !rep.Mine(n) {
					continue
				}
				if r.Expired() {
					r.Cap("deadline")
					return
				}
				c := Case{Pipeline: pi, Set: si, Order: o}
				rep.Current(c)
				for _, p := range check(t, c, r, solo) {
					r.Violation(p.key, p.msg, c)
				}
				if r.WantSample() && n%1999 == 5 {
					r.Sample(map[string]any{"script": pipelines[pi].script(), "sources": describeSet(set), "order": o})
				}
			}
		}
	}
	r.ExportSet("states")
}
