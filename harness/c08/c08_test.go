package c08

import (
	"encoding/json"
	"fmt"
	"os"
	"path/filepath"
	"strings"
	"testing"
	"time"

	"github.com/influxdata/kapacitor/alert"
	"github.com/influxdata/kapacitor/services/storage"
	"github.com/influxdata/kapacitor/zz_verif/kit"
	"github.com/influxdata/kapacitor/zz_verif/rep"
)

type Config struct {
	Task string // "anon" (.exec only), "named" (.topic only), "both"
	SCO  bool
}

func (c Config) script() string {
	s := "stream|from().measurement('m').groupBy('g')|alert().info(lambda: \"l\" >= 1).warn(lambda: \"l\" >= 2).crit(lambda: \"l\" >= 3)"
	if c.Task == "anon" || c.Task == "both" {
		s += ".exec('cmd')"
	}
	if c.Task == "named" || c.Task == "both" {
		s += ".topic('nt')"
	}
	if c.SCO {
		s += ".stateChangesOnly()"
	}
	return s
}

// Case: levels per point; point i belongs to id IDs[i]
type Case struct {
	Cfg    Config
	Levels []int
	IDs    []string
}

// snapshot of the Bolt file at a transaction boundary of the topic state store
type boundary struct {
	file     string
	point    int  // index of the point in flight
	after    bool // after the commit (else before)
	txOfPt   int  // number of this transaction among those of the point (0-based)
	anonLog  int  // events the exec handler had been handed
	namedLog int
	mem      string // non-OK levels of the topics in memory when the snapshot was taken
}

type snapStore struct {
	storage.Interface
	h *harness
}

func (s *snapStore) Update(f func(storage.Tx) error) error {
	s.h.snap(false)
	err := s.Interface.Update(f)
	s.h.snap(true)
	return err
}

type harness struct {
	dir        string
	cur        *kit.AlertEnv
	cmd        *kit.FakeCommander
	named      *kit.RecHandler
	point      int
	txOfPt     int
	boundaries []boundary
	recording  bool
	n          int
	cfg        Config
}

func (h *harness) snap(after bool) {
	if !h.recording {
		return
	}
	// the handler queues are drained synchronously enough for this sequential harness: the event of the
	// point in flight is handed to the buffered handler before Collect persists; wait for the handler goroutines
	// is not possible here (we are inside the node goroutine), so the logs are read as they are and the oracle
	// allows the last event to be repeated
	data, err := os.ReadFile(h.cur.Store.Path())
	if err != nil {
		return
	}
	h.n++
	fn := filepath.Join(h.dir, fmt.Sprintf("snap-%d.db", h.n))
	os.WriteFile(fn, data, 0o600)
	b := boundary{file: fn, point: h.point, after: after, txOfPt: h.txOfPt}
	if after {
		h.txOfPt++
		b.mem = nonOK(h.topicLevels(h.cfg))
	} else if n := len(h.boundaries); n > 0 {
		b.mem = h.boundaries[n-1].mem // nothing was committed since the previous boundary
	}
	h.boundaries = append(h.boundaries, b)
}

func (h *harness) open(path string, cfg Config, record bool) error {
	h.cmd = &kit.FakeCommander{}
	h.named = &kit.RecHandler{Name: "named"}
	h.recording = false
	h.cfg = cfg
	env, err := kit.NewAlertEnv("c08", kit.AlertOpts{Persist: true, BoltPath: path, Commander: h.cmd,
		WrapStore: func(ns string, s storage.Interface) storage.Interface {
			if ns == "topic_states_store" {
				return &snapStore{Interface: s, h: h}
			}
			return s
		}})
	if err != nil {
		return err
	}
	h.cur = env
	if cfg.Task != "anon" {
		env.Alert.RegisterAnonHandler("nt", h.named)
	}
	if _, err := env.StartStream("t", cfg.script()); err != nil {
		return err
	}
	h.recording = record
	return nil
}

type evrec struct {
	ID    string
	Level alert.Level
	T     int64
}

func (h *harness) logs() (anon, named []evrec) {
	for _, c := range h.cmd.Copy() {
		var ad alert.Data
		if json.Unmarshal(c.Stdin, &ad) == nil {
			anon = append(anon, evrec{ad.ID, ad.Level, ad.Time.Unix()})
		}
	}
	for _, e := range h.named.Copy() {
		named = append(named, evrec{e.ID, e.Level, e.T / 1e9})
	}
	return
}

func (h *harness) feed(c Case, i int) error {
	p := kit.MkPoint("m", map[string]string{"g": c.IDs[i]}, map[string]any{"l": int64(c.Levels[i])}, kit.T0.Add(time.Duration(i+1)*time.Second))
	return h.cur.Write("db", "rp", p)
}

func (h *harness) topicLevels(cfg Config) map[string]alert.Level {
	r := map[string]alert.Level{}
	var topics []string
	if cfg.Task != "named" {
		topics = append(topics, "c08:t:alert2")
	}
	if cfg.Task != "anon" {
		topics = append(topics, "nt")
	}
	for _, tp := range topics {
		es, err := h.cur.Alert.EventStates(tp, alert.OK)
		if err != nil {
			continue
		}
		for id, e := range es {
			r[tp+"/"+id] = e.Level
		}
	}
	return r
}

func nonOK(m map[string]alert.Level) string {
	var ks []string
	for k, v := range m {
		if v != alert.OK {
			ks = append(ks, fmt.Sprintf("%s=%s", k, v))
		}
	}
	sortStrings(ks)
	return strings.Join(ks, ",")
}

func sortStrings(a []string) {
	for i := range a {
		for j := i + 1; j < len(a); j++ {
			if a[j] < a[i] {
				a[i], a[j] = a[j], a[i]
			}
		}
	}
}

type problem struct{ kind, msg string }

func perID(l []evrec, id string) []evrec {
	var r []evrec
	for _, e := range l {
		if e.ID == id {
			r = append(r, e)
		}
	}
	return r
}

func fmtEv(l []evrec) string {
	var s []string
	for _, e := range l {
		s = append(s, fmt.Sprintf("%s@%d", e.Level, e.T-kit.T0.Unix()))
	}
	return "[" + strings.Join(s, " ") + "]"
}

// acceptable: post must equal full[k:] or full[k-1:] (the last event told before the crash may be repeated)
func acceptable(full, pre, post []evrec) bool {
	k := len(pre)
	eq := func(a, b []evrec) bool {
		if len(a) != len(b) {
			return false
		}
		for i := range a {
			if a[i].Level != b[i].Level || a[i].T != b[i].T {
				return false
			}
		}
		return true
	}
	if k <= len(full) && eq(post, full[k:]) {
		return true
	}
	if k >= 1 && k <= len(full) && eq(post, full[k-1:]) {
		return true
	}
	return false
}

func run(t *testing.T, c Case, stats *stat) (p *problem) {
	dir, _ := os.MkdirTemp(kit.TmpDir(), "c08-")
	defer os.RemoveAll(dir)
	h := &harness{dir: dir}
	var fullAnon, fullNamed []evrec
	var finalLevels map[string]alert.Level
	var preLogs [][2][]evrec
	// 1. uninterrupted run, recording a snapshot at every transaction boundary
	leak, pan := kit.Bubble(t, func() {
		if err := h.open(filepath.Join(dir, "main.db"), c.Cfg, true); err != nil {
			p = &problem{"internal", err.Error()}
			return
		}
		kit.Wait()
		for i := range c.Levels {
			h.point, h.txOfPt = i, 0
			nb := len(h.boundaries)
			if err := h.feed(c, i); err != nil {
				p = &problem{"internal", err.Error()}
				return
			}
			kit.Wait()
			// handler logs as of the boundaries of this point: all events of earlier points plus possibly this one's.
			a, n := h.logs()
			for j := nb; j < len(h.boundaries); j++ {
				h.boundaries[j].anonLog, h.boundaries[j].namedLog = len(a), len(n)
			}
			_ = preLogs
		}
		fullAnon, fullNamed = h.logs()
		finalLevels = h.topicLevels(c.Cfg)
		h.recording = false
		h.cur.Shutdown(false)
	})
	if pan != nil || leak != "" {
		return &problem{"internal", fmt.Sprintf("uninterrupted run: panic=%v leak=%s", pan, leak)}
	}
	if p != nil {
		return p
	}
	stats.boundaries += int64(len(h.boundaries))
	// how many transactions does each point have?
	txCount := map[int]int{}
	for _, b := range h.boundaries {
		if b.after {
			txCount[b.point]++
		}
	}
	ids := map[string]bool{}
	for _, id := range c.IDs {
		ids["m:g="+id] = true
	}
	// 2. crash at every boundary, restart on the copy, continue
	for bi, b := range h.boundaries {
		b := b
		// events told before the crash: at a boundary of point i the handlers have been told everything of points < i;
		// the event of point i itself may or may not have been handed over (it is handed over before the first persist)
		from := b.point
		if b.after && b.txOfPt == txCount[b.point]-1 {
			from = b.point + 1 // the point was completely processed and persisted
		}
		var postAnon, postNamed []evrec
		var restoredLevels, endLevels map[string]alert.Level
		h2 := &harness{dir: dir}
		leak, pan := kit.Bubble(t, func() {
			cp := filepath.Join(dir, fmt.Sprintf("restart-%d.db", bi))
			data, _ := os.ReadFile(b.file)
			os.WriteFile(cp, data, 0o600)
			if err := h2.open(cp, c.Cfg, false); err != nil {
				p = &problem{"restart-error", fmt.Sprintf("restart on the storage of boundary %d failed: %v", bi, err)}
				return
			}
			kit.Wait()
			restoredLevels = h2.topicLevels(c.Cfg)
			for i := from; i < len(c.Levels); i++ {
				if err := h2.feed(c, i); err != nil {
					p = &problem{"internal", err.Error()}
					return
				}
				kit.Wait()
			}
			postAnon, postNamed = h2.logs()
			endLevels = h2.topicLevels(c.Cfg)
			h2.cur.Shutdown(true)
		})
		stats.restarts++
		if pan != nil {
			return &problem{"restart-panic", fmt.Sprintf("panic after restart at boundary %d: %v", bi, pan)}
		}
		if leak != "" && p == nil {
			return &problem{"goroutine-leak", leak}
		}
		if p != nil {
			return p
		}
		where := fmt.Sprintf("crash %s the commit of transaction %d of point %d (levels %v ids %v, %s)", map[bool]string{false: "before", true: "after"}[b.after], b.txOfPt, b.point, c.Levels, c.IDs, c.Cfg.script())
		// (i) right after the restart every id is at the last level recorded for it (OK / absent otherwise)
		if nonOK(restoredLevels) != b.mem {
			return &problem{"restored-state", fmt.Sprintf("%s: topic state right after restart %q, recorded at the crash %q", where, nonOK(restoredLevels), b.mem)}
		}
		// (ii) final state
		if nonOK(endLevels) != nonOK(finalLevels) {
			return &problem{"final-state", fmt.Sprintf("%s: final topic state %q, uninterrupted run %q (state right after restart %q)", where, nonOK(endLevels), nonOK(finalLevels), nonOK(restoredLevels))}
		}
		// (iii) handler logs per id
		for id := range ids {
			if c.Cfg.Task != "named" {
				full := perID(fullAnon, id)
				// told before the crash: events of points before `from`... count by time
				var pre []evrec
				for _, e := range full {
					if e.T < kit.T0.Unix()+int64(from)+1 {
						pre = append(pre, e)
					}
				}
				post := perID(postAnon, id)
				if !acceptableAny(full, pre, post, from) {
					return &problem{"handler-log:anon", fmt.Sprintf("%s: exec handler of %s: uninterrupted %s, told before the crash %s, told after restart %s", where, id, fmtEv(full), fmtEv(pre), fmtEv(post))}
				}
			}
			if c.Cfg.Task != "anon" {
				full := perID(fullNamed, id)
				var pre []evrec
				for _, e := range full {
					if e.T < kit.T0.Unix()+int64(from)+1 {
						pre = append(pre, e)
					}
				}
				post := perID(postNamed, id)
				if !acceptableAny(full, pre, post, from) {
					return &problem{"handler-log:named", fmt.Sprintf("%s: handler on topic nt for %s: uninterrupted %s, told before the crash %s, told after restart %s", where, id, fmtEv(full), fmtEv(pre), fmtEv(post))}
				}
			}
		}
		if nonOK(restoredLevels) != "" {
			stats.nonTrivial++
		}
	}
	return nil
}

// acceptableAny: the handlers had certainly been told `pre` (events of completely processed points); the event of
// the point in flight may or may not have been handed over before the crash.
func acceptableAny(full, pre, post []evrec, from int) bool {
	if acceptable(full, pre, post) {
		return true
	}
	k := len(pre)
	if k < len(full) && full[k].T == kit.T0.Unix()+int64(from)+1 {
		// the next event of the uninterrupted run belongs to the point in flight
		if acceptable(full, full[:k+1], post) {
			return true
		}
	}
	return false
}

func max0(x int) int {
	if x < 0 {
		return 0
	}
	return x
}

type stat struct{ boundaries, restarts, nonTrivial int64 }

func TestCheck(t *testing.T) {
	defer kit.CleanupTmp()
	r := rep.New("C08", "fault_enumeration",
		"alert state across restarts: tasks whose alert has an anonymous topic (.exec handler), a named topic, or both, with and without stateChangesOnly, topic persistence on, over a real alert service on a real Bolt file; level sequences over {OK,INFO,WARNING,CRITICAL} for one id (all sequences of length 4) and two interleaved ids (all sequences of length 2 each); one uninterrupted run records a copy of the Bolt file before and after the commit of EVERY transaction of the topic state store; for every such boundary: fresh alert service + TaskMaster on the copy, same task, the remaining data re-fed (starting with the point in flight unless it was completely persisted). Oracle: final topic state equals the uninterrupted run, per handler and id the post-restart events are the uninterrupted run's remaining events, at worst preceded by a repeat of the last event told before the crash. non-trivial = restarts whose restored storage held at least one non-OK state")
	defer r.Write()
	r.Assumption("bbolt commit atomicity is trusted: the file between two commits equals the file after the earlier commit; torn pages are out of scope")
	r.Assumption("at a crash the events already handed to the (buffered) handlers count as told; events still queued in memory are an at-most-once delivery limit outside the stated crash model")
	r.Assumption("event durations are not compared across a restart")

	if rep.ReplayPath() != "" {
		var c Case
		if err := rep.LoadReplay(&c); err != nil {
			t.Fatal(err)
		}
		var st stat
		if p := run(t, c, &st); p != nil {
			r.Violation(p.kind+":"+c.Cfg.Task, p.msg, c)
		}
		r.Add("evaluations", 1)
		return
	}
	var cases []Case
	l1, l2 := 4, 2
	if rep.Thorough() {
		l1, l2 = 5, 3
	}
	for _, task := range []string{"anon", "named", "both"} {
		for _, sco := range []bool{false, true} {
			cfg := Config{Task: task, SCO: sco}
			// one id
			n := 1
			for i := 0; i < l1; i++ {
				n *= 4
			}
			for x := 0; x < n; x++ {
				c := Case{Cfg: cfg}
				y := x
				for i := 0; i < l1; i++ {
					c.Levels = append(c.Levels, y%4)
					c.IDs = append(c.IDs, "a")
					y /= 4
				}
				cases = append(cases, c)
			}
			// two ids interleaved
			n = 1
			for i := 0; i < 2*l2; i++ {
				n *= 4
			}
			for x := 0; x < n; x++ {
				c := Case{Cfg: cfg}
				y := x
				for i := 0; i < 2*l2; i++ {
					c.Levels = append(c.Levels, y%4)
					c.IDs = append(c.IDs, []string{"a", "b"}[i%2])
					y /= 4
				}
				cases = append(cases, c)
			}
		}
	}
	var st stat
	for i, c := range cases {
		if !rep.Mine(i) {
			continue
		}
		if r.Expired() {
			r.Cap("deadline")
			break
		}
		if p := run(t, c, &st); p != nil {
			r.Violation(p.kind+":"+c.Cfg.Task, p.msg, c)
		}
		r.Add("histories", 1)
		if r.WantSample() && i%500 == 9 {
			r.Sample(map[string]any{"script": c.Cfg.script(), "levels": c.Levels, "ids": c.IDs})
		}
	}
	r.Add("evaluations", st.restarts)
	r.Add("crash_points", st.boundaries)
	r.AddDistinct("nontrivial", st.nonTrivial)
}
