// Package vsync replaces package sync in instrumented packages: Mutex, RWMutex and Once are
// built on channels (so that a goroutine waiting for a lock is durably blocked in synctest
// terms) and every acquiring call starts with a scheduler gate. The other identifiers are the
// real ones.
package vsync

import (
	"sync"

	"github.com/influxdata/kapacitor/zz_verif/vsched"
)

type (
	WaitGroupReal = sync.WaitGroup
	Pool          = sync.Pool
	Map           = sync.Map
	Locker        = sync.Locker
	Cond          = sync.Cond
)

var NewCond = sync.NewCond

var initMu sync.Mutex

// Mutex: a one-slot channel semaphore.
type Mutex struct {
	ch chan struct{}
}

func (m *Mutex) sem() chan struct{} {
	initMu.Lock()
	if m.ch == nil {
		m.ch = make(chan struct{}, 1)
	}
	c := m.ch
	initMu.Unlock()
	return c
}

func (m *Mutex) Lock() {
	vsched.Point()
	m.sem() <- struct{}{}
}

func (m *Mutex) TryLock() bool {
	vsched.Point()
	select {
	case m.sem() <- struct{}{}:
		return true
	default:
		return false
	}
}

func (m *Mutex) Unlock() {
	select {
	case <-m.sem():
	default:
		panic("vsync: unlock of unlocked mutex")
	}
}

// RWMutex: writer preference is not modelled; readers share, writers exclude.
type RWMutex struct {
	w       Mutex // held by a writer, or by the group of readers
	mu      chan struct{}
	readers int
}

func (rw *RWMutex) state() chan struct{} {
	initMu.Lock()
	if rw.mu == nil {
		rw.mu = make(chan struct{}, 1)
	}
	c := rw.mu
	initMu.Unlock()
	return c
}

func (rw *RWMutex) Lock() {
	vsched.Point()
	rw.w.sem() <- struct{}{}
}
func (rw *RWMutex) Unlock() { rw.w.Unlock() }
func (rw *RWMutex) RLock() {
	vsched.Point()
	st := rw.state()
	st <- struct{}{}
	if rw.readers == 0 {
		// first reader takes the writer lock for the group (may block durably; the state lock is held
		// meanwhile, which makes later readers queue behind - like a pending writer would)
		rw.w.sem() <- struct{}{}
	}
	rw.readers++
	<-st
}
func (rw *RWMutex) RUnlock() {
	st := rw.state()
	st <- struct{}{}
	rw.readers--
	if rw.readers < 0 {
		panic("vsync: RUnlock of unlocked RWMutex")
	}
	if rw.readers == 0 {
		rw.w.Unlock()
	}
	<-st
}
func (rw *RWMutex) TryLock() bool        { return rw.w.TryLock() }
func (rw *RWMutex) RLocker() sync.Locker { return (*rlocker)(rw) }

type rlocker RWMutex

func (r *rlocker) Lock()   { (*RWMutex)(r).RLock() }
func (r *rlocker) Unlock() { (*RWMutex)(r).RUnlock() }

// Once
type Once struct {
	m    Mutex
	done bool
}

func (o *Once) Do(f func()) {
	o.m.Lock()
	defer o.m.Unlock()
	if !o.done {
		defer func() { o.done = true }()
		f()
	}
}

// WaitGroup: the real one (its Wait is durably blocking inside a bubble) with a gate before Wait.
type WaitGroup struct {
	wg sync.WaitGroup
}

func (w *WaitGroup) Add(n int) { w.wg.Add(n) }
func (w *WaitGroup) Done()     { w.wg.Done() }
func (w *WaitGroup) Wait() {
	vsched.Point()
	w.wg.Wait()
}
func (w *WaitGroup) Go(f func()) {
	w.wg.Add(1)
	vsched.Go(func() {
		defer w.wg.Done()
		f()
	})
}
