#!/usr/bin/env python3
"""Rewrites the table of seeded changes in DESIGN.md (between the SEEDED-TABLE markers) from seeded/*/meta.json."""
import glob, json, os, re, sys

ROOT = os.path.dirname(os.path.dirname(os.path.abspath(__file__)))


def first_line(p):
    pd = open(p).read()
    files = sorted(set(re.findall(r'^\+\+\+ b/(\S+)', pd, re.M)))
    funcs = re.findall(r'^@@.*@@ (?:func )?(.*)$', pd, re.M)
    fn = funcs[0].strip() if funcs else ''
    m = re.match(r'(\([^)]*\)\s*)?([A-Za-z0-9_]+)', fn)
    name = ''
    if m:
        recv = (m.group(1) or '').strip().strip('()').split()
        recv = recv[-1].lstrip('*') if recv else ''
        recv = re.sub(r'\[.*$', '', recv)
        name = (recv + '.' if recv else '') + m.group(2)
        if name in ('import', 'var', 'type', 'const', 'package'):
            name = ''
    return ', '.join(files) + (' `' + name + '`' if name else '')


def rows():
    out = []
    dirs = glob.glob(os.path.join(ROOT, 'seeded', 'C*-*'))

    def k(d):
        b = os.path.basename(d)
        a, n = b.split('-')
        return (a, int(n))
    for d in sorted(dirs, key=k):
        m = json.load(open(os.path.join(d, 'meta.json')))
        b = os.path.basename(d)
        by = m.get('detected_by') or m['property']
        key = ''
        if m.get('violation_keys'):
            mm = re.match(r'key=(\S+)', m['violation_keys'][0])
            key = mm.group(1) if mm else m['violation_keys'][0][:60]
        det = 'yes' if m.get('detected') else '**NO**'
        out.append('| %s | %s | %s | %s: `%s` |' % (b, first_line(os.path.join(d, 'patch.diff')), det, by, key.replace('|', '\\|')))
    return out


def main():
    p = os.path.join(ROOT, 'DESIGN.md')
    s = open(p).read()
    r = rows()
    tab = '<!-- SEEDED-TABLE-BEGIN -->\n| seeded | site | caught | by (first key) |\n|---|---|---|---|\n' + '\n'.join(r) + '\n<!-- SEEDED-TABLE-END -->'
    if '<!-- SEEDED-TABLE-BEGIN -->' not in s:
        sys.exit('markers missing')
    s = re.sub(r'<!-- SEEDED-TABLE-BEGIN -->.*?<!-- SEEDED-TABLE-END -->', lambda _: tab, s, flags=re.S)
    open(p, 'w').write(s)
    print(len(r), 'rows')


if __name__ == '__main__':
    main()
