package c02

import (
	"bytes"
	"compress/gzip"
	"expvar"
	"fmt"
	"io"
	"log"
	"net/http"
	"net/http/httptest"
	"strings"
	"testing"
	"time"

	"github.com/influxdata/kapacitor"
	"github.com/influxdata/kapacitor/services/httpd"
	"github.com/influxdata/kapacitor/zz_verif/kit"
	"github.com/influxdata/kapacitor/zz_verif/rep"
)

// Part (c): ingestion through the real HTTP write handler (services/httpd) into the real TaskMaster. One request
// carries several lines; the points of a request must reach every selecting from() once and in the order of the
// lines, whatever their time stamps.

type nopDiag struct{}

func (nopDiag) NewHTTPServerErrorLogger() *log.Logger { return log.New(io.Discard, "", 0) }
func (nopDiag) StartingService()                      {}
func (nopDiag) StoppedService()                       {}
func (nopDiag) ShutdownTimeout()                      {}
func (nopDiag) AuthenticationEnabled(enabled bool)    {}
func (nopDiag) ListeningOn(addr string, proto string) {}
func (nopDiag) WriteBodyReceived(body string)         {}
func (nopDiag) HTTP(host string, username string, start time.Time, method string, uri string, proto string, status int, referer string, userAgent string, reqID string, duration time.Duration) {
}
func (nopDiag) Error(msg string, err error) {}
func (nopDiag) RecoveryError(msg string, err string, host string, username string, start time.Time, method string, uri string, proto string, status int, referer string, userAgent string, reqID string, duration time.Duration) {
}

// Line: one line of a write request
type Line struct {
	M  string
	TS int // seconds after T0; 0: the line carries no time stamp
}

type HTTPCase struct {
	Universe [3]string
	Requests [][]Line
	RP       string // "" = the default retention policy
	Prec     string // precision parameter ("" = n)
	// Repeat > 1: the lines of each request are repeated that often (a long, compressible body); Gzip: the body is
	// sent with Content-Encoding: gzip (and a Content-Length, as clients do)
	Repeat int  `json:",omitempty"`
	Gzip   bool `json:",omitempty"`
}

func (c HTTPCase) String() string {
	return fmt.Sprintf("tasks %v, POST /write?db=db1&rp=%s&precision=%s (gzip %v) with bodies %v each line set repeated %d times", c.Universe, c.RP, c.Prec, c.Gzip, c.Requests, c.Repeat)
}

func runHTTP(t *testing.T, c HTTPCase) (p *problem) {
	leak, pan := kit.Bubble(t, func() {
		env, err := kit.NewEnv("c02")
		if err != nil {
			p = &problem{"internal", err.Error()}
			return
		}
		env.TM.DefaultRetentionPolicy = "rp1"
		sm := &expvar.Map{}
		sm.Init()
		h := httpd.NewHandler(false, false, false, false, false, sm, nopDiag{}, "")
		h.PointsWriter = env.TM
		for ti, name := range c.Universe {
			sh := shapes[name]
			tn := fmt.Sprintf("T%d", ti)
			if _, err := env.Start(tn, sh.script(tn), kapacitor.StreamTask, sh.dbrps()); err != nil {
				p = &problem{"start-error", err.Error()}
				return
			}
		}
		kit.Wait()
		want := map[string][]int{}
		seq := 0
		for _, req := range c.Requests {
			var body strings.Builder
			rpt := c.Repeat
			if rpt < 1 {
				rpt = 1
			}
			var lines []Line
			for k := 0; k < rpt; k++ {
				lines = append(lines, req...)
			}
			for _, l := range lines {
				seq++
				fmt.Fprintf(&body, "%s k=1i,seq=%di", l.M, seq)
				if l.TS > 0 {
					ts := kit.T0.Add(time.Duration(l.TS) * time.Second).UnixNano()
					switch c.Prec {
					case "s":
						ts /= 1e9
					case "ms":
						ts /= 1e6
					}
					fmt.Fprintf(&body, " %d", ts)
				}
				body.WriteString("\n")
				for ti, name := range c.Universe {
					for fi, f := range shapes[name].Froms {
						declared := false
						for _, d := range shapes[name].DBRPs {
							if d[0] == "db1" && d[1] == "rp1" {
								declared = true
							}
						}
						if declared && matches(f, "db1", "rp1", l.M, 1) {
							k := fmt.Sprintf("T%d.%d", ti, fi)
							want[k] = append(want[k], seq)
						}
					}
				}
			}
			url := httpd.BasePath + "/write?db=db1"
			if c.RP != "" {
				url += "&rp=" + c.RP
			}
			if c.Prec != "" {
				url += "&precision=" + c.Prec
			}
			rec := httptest.NewRecorder()
			var rq *http.Request
			if c.Gzip {
				var zb bytes.Buffer
				zw := gzip.NewWriter(&zb)
				zw.Write([]byte(body.String()))
				zw.Close()
				rq = httptest.NewRequest(http.MethodPost, url, bytes.NewReader(zb.Bytes()))
				rq.Header.Set("Content-Encoding", "gzip")
			} else {
				rq = httptest.NewRequest(http.MethodPost, url, strings.NewReader(body.String()))
			}
			h.ServeHTTP(rec, rq)
			if rec.Code != http.StatusNoContent && rec.Code != http.StatusOK {
				p = &problem{"http-write-refused", fmt.Sprintf("%s: status %d %s", c, rec.Code, rec.Body.String())}
				return
			}
			kit.Wait()
		}
		for ti, name := range c.Universe {
			for fi := range shapes[name].Froms {
				k := fmt.Sprintf("T%d.%d", ti, fi)
				var got []int
				for _, pt := range env.Diag.Sink(k).Points() {
					got = append(got, int(pt.Fields["seq"].(int64)))
				}
				if fmt.Sprint(got) != fmt.Sprint(want[k]) {
					kind := "http-order"
					if len(got) != len(want[k]) {
						kind = "http-count"
					}
					p = &problem{kind + ":" + name, fmt.Sprintf("%s: from() #%d of task T%d (%s) received lines %v, want %v (numbered in the order written)", c, fi, ti, name, got, want[k])}
					return
				}
			}
		}
		if err := env.TM.Close(); err != nil {
			p = &problem{"close-error", err.Error()}
		}
		kit.Wait()
	})
	if pan != nil {
		return &problem{"panic", fmt.Sprintf("panic: %v in %s", pan, c)}
	}
	if leak != "" && p == nil {
		return &problem{"goroutine-leak", leak}
	}
	return
}

func httpPart(t *testing.T, r *rep.R, n *int) {
	var syms []Line
	for _, m := range []string{"m1", "m2"} {
		for ts := 0; ts <= 3; ts++ {
			syms = append(syms, Line{m, ts})
		}
	}
	maxLines := 3
	var bodies [][]Line
	var rec func(pre []Line)
	rec = func(pre []Line) {
		if len(pre) > 0 {
			bodies = append(bodies, append([]Line(nil), pre...))
		}
		if len(pre) == maxLines {
			return
		}
		for _, s := range syms {
			rec(append(pre, s))
		}
	}
	rec(nil)
	u := [3]string{"m1+all", "m1", "all"}
	// long bodies, plain and gzip-compressed (the compressed body is much shorter than the text)
	for _, gz := range []bool{false, true} {
		for _, rptn := range []int{1, 70, 400} {
			for _, b := range [][]Line{{{"m1", 1}, {"m2", 2}, {"m1", 0}}, {{"m1", 3}, {"m1", 1}}} {
				*n++
				if !rep.Mine(*n) {
					continue
				}
				c := HTTPCase{Universe: u, Requests: [][]Line{b}, RP: "rp1", Repeat: rptn, Gzip: gz}
				rep.Current(map[string]any{"HTTP": c})
				r.Add("evaluations", 1)
				r.Add("http_cases", 1)
				r.Add("transitions", int64(len(b)*rptn))
				if p := runHTTP(t, c); p != nil {
					r.Violation(p.kind, p.msg, map[string]any{"HTTP": c})
				}
			}
		}
	}
	for _, rp := range []string{"rp1", ""} {
		for _, prec := range []string{"", "s"} {
			for bi, b := range bodies {
				reqs := [][]Line{b}
				if rep.Thorough() || bi%8 == 0 {
					// and as the second request after one whose points are later
					reqs = [][]Line{{{"m1", 3}}, b}
				}
				*n++
				if !rep.Mine(*n) {
					continue
				}
				if r.Expired() {
					r.Cap("deadline")
					return
				}
				c := HTTPCase{Universe: u, Requests: reqs, RP: rp, Prec: prec}
				rep.Current(map[string]any{"HTTP": c})
				r.Add("evaluations", 1)
				r.Add("http_cases", 1)
				r.Add("transitions", int64(len(b)))
				if p := runHTTP(t, c); p != nil {
					r.Violation(p.kind, p.msg, map[string]any{"HTTP": c})
				}
			}
		}
	}
}
