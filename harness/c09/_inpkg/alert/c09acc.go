package alert

// VerifSortedIDs returns the ids of the topic's event states in stored (sorted slice) order.
// Added by -overlay only for the C09 harness.
func (s *Topics) VerifSortedIDs(topic string) []string {
	s.mu.RLock()
	t := s.topics[topic]
	s.mu.RUnlock()
	if t == nil {
		return nil
	}
	t.mu.RLock()
	defer t.mu.RUnlock()
	var r []string
	for _, e := range t.sorted {
		r = append(r, e.ID)
	}
	return r
}
