// Package libflux: pure-Go stand-in used by /verif so that kapacitor builds
// offline without the cgo/Rust libflux. Same exported API as
// github.com/influxdata/flux/libflux/go/libflux@v0.191.0; every entry point that
// would call into Rust returns an error. No kapacitor property checked by /verif
// depends on Flux.
package libflux

import (
	"context"
	"errors"

	"github.com/influxdata/flux/semantic"
)

var errStub = errors.New("libflux: not available in the verification build")

func SemanticPackages() (map[string]*semantic.Package, error) { return nil, errStub }

type Options struct {
	Features []string `json:"features,omitempty"`
}

func NewOptions(ctx context.Context) Options { return Options{} }

type SemanticPkg struct{}

func (p *SemanticPkg) MarshalFB() ([]byte, error) { return nil, errStub }
func (p *SemanticPkg) Free()                      {}

func Analyze(astPkg *ASTPkg) (*SemanticPkg, error) { return nil, errStub }
func AnalyzeWithOptions(astPkg *ASTPkg, options Options) (*SemanticPkg, error) {
	return nil, errStub
}
func AnalyzeString(script string) (*SemanticPkg, error) { return nil, errStub }
func FindVarType(astPkg *ASTPkg, varName string) (semantic.MonoType, error) {
	return semantic.MonoType{}, errStub
}
func FindVarTypes(script string, varNames []string) ([]semantic.MonoType, error) {
	return nil, errStub
}
func FindVarTypeSemantic(pkg *SemanticPkg, varName string) (semantic.MonoType, error) {
	return semantic.MonoType{}, errStub
}

type Analyzer struct{}

func NewAnalyzerWithOptions(options Options) (*Analyzer, error) { return &Analyzer{}, nil }
func (p *Analyzer) AnalyzeString(src string) (*SemanticPkg, *FluxError) {
	return nil, &FluxError{}
}
func (p *Analyzer) Analyze(src string, astPkg *ASTPkg) (*SemanticPkg, *FluxError) {
	return nil, &FluxError{}
}
func (p *Analyzer) Free() {}

func EnvStdlib() []byte { return nil }

type FluxError struct{}

func (p *FluxError) Free()          {}
func (p *FluxError) Print()         {}
func (p *FluxError) GoError() error { return errStub }

type ASTPkg struct{}

func (p ASTPkg) ASTHandle()                          {}
func (p ASTPkg) Format() (string, error)             { return "", errStub }
func (p ASTPkg) GetError(options Options) error      { return errStub }
func (p *ASTPkg) MarshalJSON() ([]byte, error)       { return nil, errStub }
func (p *ASTPkg) MarshalFB() ([]byte, error)         { return nil, errStub }
func (p *ASTPkg) Free()                              {}
func (p *ASTPkg) String() string                     { return "" }
func ParseString(src string) *ASTPkg                 { return &ASTPkg{} }
func Parse(fname string, src string) *ASTPkg         { return &ASTPkg{} }
func ParseJSON(bs []byte) (*ASTPkg, error)           { return nil, errStub }
func MergePackages(outPkg *ASTPkg, inPkg *ASTPkg) error { return errStub }
