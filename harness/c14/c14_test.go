package c14

import (
	"bytes"
	"encoding/json"
	"fmt"
	"net/http"
	"net/http/httptest"
	"os"
	"path/filepath"
	"sort"
	"strings"
	"testing"
	"time"

	imodels "github.com/influxdata/influxdb/models"
	"github.com/influxdata/kapacitor"
	"github.com/influxdata/kapacitor/keyvalue"
	"github.com/influxdata/kapacitor/services/httpd"
	"github.com/influxdata/kapacitor/services/storage"
	"github.com/influxdata/kapacitor/services/task_store"
	"github.com/influxdata/kapacitor/zz_verif/kit"
	"github.com/influxdata/kapacitor/zz_verif/rep"
)

// ---------------------------------------------------------------- the API alphabet

const (
	// (combine().max(1) makes a running execution of this script fail when three points of measurement a carry the
	// same time stamp: 3 combinations > 1)
	SA     = "stream|from().measurement('a')|combine(lambda: TRUE, lambda: TRUE).as('x', 'y').max(1)|log()"
	SB     = "stream|from().measurement('b')|log()"
	BAD    = "stream|from("
	BATCHX = "batch|query('SELECT v FROM \"other\".\"rp\".\"m\"').period(10s).every(10s)|log()"
	TPL1   = "var m string\nvar n = 5\nstream|from().measurement(m)|window().periodCount(n).everyCount(1)|log()"
	TPL2   = "var m string\nvar n = 5\nstream|from().measurement(m)|window().periodCount(n).everyCount(n)|log()"
	// needs a variable z that only some tasks define: an update to it fails on the tasks without z
	TPL3 = "var m string\nvar z string\nstream|from().measurement(m)|where(lambda: \"x\" == z)|log()"
)

var (
	V1   = map[string]any{"m": map[string]any{"type": "string", "value": "a"}}
	V2   = map[string]any{"m": map[string]any{"type": "string", "value": "b"}, "z": map[string]any{"type": "string", "value": "q"}}
	VBAD = map[string]any{"m": map[string]any{"type": "int", "value": 1}}
	DBRP = []any{map[string]any{"db": "db", "rp": "rp"}}
)

type Op struct {
	Name   string
	Method string
	Path   string
	Body   map[string]any
}

func ops() []Op {
	t, p := "/kapacitor/v1/tasks", "/kapacitor/v1/templates"
	return []Op{
		{"create(t1,A,enabled)", "POST", t, map[string]any{"id": "t1", "type": "stream", "dbrps": DBRP, "script": SA, "status": "enabled"}},
		{"create(t1,A,disabled)", "POST", t, map[string]any{"id": "t1", "type": "stream", "dbrps": DBRP, "script": SA, "status": "disabled"}},
		{"create(t2,B,enabled)", "POST", t, map[string]any{"id": "t2", "type": "stream", "dbrps": DBRP, "script": SB, "status": "enabled"}},
		{"create(t1,BAD,enabled)", "POST", t, map[string]any{"id": "t1", "type": "stream", "dbrps": DBRP, "script": BAD, "status": "enabled"}},
		{"create(t1,BATCHX,enabled)", "POST", t, map[string]any{"id": "t1", "type": "batch", "dbrps": DBRP, "script": BATCHX, "status": "enabled"}},
		{"create(t1,template p1,V1,enabled)", "POST", t, map[string]any{"id": "t1", "template-id": "p1", "dbrps": DBRP, "vars": V1, "status": "enabled"}},
		{"create(t2,template p1,V2,disabled)", "POST", t, map[string]any{"id": "t2", "template-id": "p1", "dbrps": DBRP, "vars": V2, "status": "disabled"}},
		{"create(t1,template p1,VBAD,enabled)", "POST", t, map[string]any{"id": "t1", "template-id": "p1", "dbrps": DBRP, "vars": VBAD, "status": "enabled"}},
		{"update(t1,script B)", "PATCH", t + "/t1", map[string]any{"script": SB}},
		{"update(t1,script BAD)", "PATCH", t + "/t1", map[string]any{"script": BAD}},
		{"update(t1,enabled)", "PATCH", t + "/t1", map[string]any{"status": "enabled"}},
		{"update(t1,disabled)", "PATCH", t + "/t1", map[string]any{"status": "disabled"}},
		{"update(t1,id t2)", "PATCH", t + "/t1", map[string]any{"id": "t2"}},
		{"update(t2,id t1,enabled)", "PATCH", t + "/t2", map[string]any{"id": "t1", "status": "enabled"}},
		{"update(t1,id t2,disabled)", "PATCH", t + "/t1", map[string]any{"id": "t2", "status": "disabled"}},
		{"update(t1,template p1,V1)", "PATCH", t + "/t1", map[string]any{"template-id": "p1", "vars": V1}},
		{"update(t1,vars VBAD)", "PATCH", t + "/t1", map[string]any{"vars": VBAD}},
		{"update(t1,script BATCHX,enabled)", "PATCH", t + "/t1", map[string]any{"script": BATCHX, "type": "batch", "status": "enabled"}},
		{"delete(t1)", "DELETE", t + "/t1", nil},
		{"delete(t2)", "DELETE", t + "/t2", nil},
		{"template-create(p1,TPL1)", "POST", p, map[string]any{"id": "p1", "type": "stream", "script": TPL1}},
		{"template-create(p1,BAD)", "POST", p, map[string]any{"id": "p1", "type": "stream", "script": BAD}},
		{"template-update(p1,TPL2)", "PATCH", p + "/p1", map[string]any{"script": TPL2}},
		{"template-update(p1,TPL3)", "PATCH", p + "/p1", map[string]any{"script": TPL3}},
		{"template-update(p1,id p2)", "PATCH", p + "/p1", map[string]any{"id": "p2"}},
		{"template-delete(p1)", "DELETE", p + "/p1", nil},
		// a second template whose id has the first one's id as a prefix
		{"template-create(p1x,TPL1)", "POST", p, map[string]any{"id": "p1x", "type": "stream", "script": TPL1}},
		{"create(t2,template p1x,V2,disabled)", "POST", t, map[string]any{"id": "t2", "template-id": "p1x", "dbrps": DBRP, "vars": V2, "status": "disabled"}},
		{"template-update(p1x,TPL2)", "PATCH", p + "/p1x", map[string]any{"script": TPL2}},
		{"restart", "", "", nil},
		// not an API request: data on which every running execution of script A fails at run time
		{"runtime-failure(executions of A)", "WRITE", "", nil},
	}
}

// ---------------------------------------------------------------- the server under test

type routeCapture struct{ routes []httpd.Route }

func (r *routeCapture) AddRoutes(rs []httpd.Route) error {
	r.routes = append(r.routes, rs...)
	return nil
}
func (r *routeCapture) DelRoutes(rs []httpd.Route) { r.routes = nil }

type tsDiag struct{ errs *[]string }

func (d tsDiag) StartingTask(string) {}
func (d tsDiag) StartedTask(string)  {}
func (d tsDiag) FinishedTask(string) {}
func (d tsDiag) Error(msg string, err error, ctx ...keyvalue.T) {
	*d.errs = append(*d.errs, msg+": "+fmt.Sprint(err))
}
func (d tsDiag) Debug(string)                   {}
func (d tsDiag) AlreadyMigrated(string, string) {}
func (d tsDiag) Migrated(string, string)        {}

type server struct {
	store  *kit.Store
	tm     *kapacitor.TaskMaster
	ts     *task_store.Service
	routes *routeCapture
	errs   []string
}

// boundaries of the storage transactions (crash points), recorded while armed
type snapper struct {
	storage.Interface
	s *sys
}

func (sn *snapper) Update(f func(storage.Tx) error) error {
	sn.s.snap()
	err := sn.Interface.Update(f)
	sn.s.snap()
	return err
}

type sys struct {
	dir   string
	path  string
	srv   *server
	armed bool
	snaps []string
	n     int
}

func (s *sys) snap() {
	if !s.armed {
		return
	}
	data, err := os.ReadFile(s.path)
	if err != nil {
		return
	}
	s.n++
	fn := filepath.Join(s.dir, fmt.Sprintf("snap-%d.db", s.n))
	os.WriteFile(fn, data, 0o600)
	s.snaps = append(s.snaps, fn)
}

func (s *sys) open() error {
	st, err := kit.OpenStore(s.path)
	if err != nil {
		return err
	}
	st.Wrap = func(ns string, in storage.Interface) storage.Interface {
		if ns == "task_store" {
			return &snapper{Interface: in, s: s}
		}
		return in
	}
	srv := &server{store: st, routes: &routeCapture{}}
	env, err := kit.NewEnv(kapacitor.MainTaskMaster)
	if err != nil {
		return err
	}
	srv.tm = env.TM
	srv.tm.InfluxDBService = &kit.FakeInflux{}
	lookup := kapacitor.NewTaskMasterLookup()
	lookup.Set(srv.tm)
	cfg := task_store.NewConfig()
	cfg.Dir = "" // no migration from a pre-1.0 task.db
	ts := task_store.NewService(cfg, tsDiag{&srv.errs})
	ts.StorageService = st
	ts.HTTPDService = srv.routes
	ts.TaskMasterLookup = lookup
	srv.tm.TaskStore = ts
	if err := ts.Open(); err != nil {
		return err
	}
	srv.ts = ts
	s.srv = srv
	return nil
}

func (s *sys) close() {
	if s.srv == nil {
		return
	}
	s.srv.ts.Close()
	s.srv.tm.Close()
	s.srv.store.Close()
	s.srv = nil
}

func (s *sys) do(method, path, query string, body any) (int, []byte) {
	var rd *bytes.Reader
	if body != nil {
		b, _ := json.Marshal(body)
		rd = bytes.NewReader(b)
	} else {
		rd = bytes.NewReader(nil)
	}
	req := httptest.NewRequest(method, path+query, rd)
	w := httptest.NewRecorder()
	anchored := strings.Count(path, "/") > 3
	for _, r := range s.srv.routes.routes {
		if r.Method != method {
			continue
		}
		isAnch := strings.HasSuffix(r.Pattern, "/")
		if isAnch != anchored {
			continue
		}
		if !strings.Contains(path, strings.TrimSuffix(r.Pattern, "/")) {
			continue
		}
		if h, ok := r.HandlerFunc.(func(http.ResponseWriter, *http.Request)); ok {
			h(w, req)
			return w.Code, w.Body.Bytes()
		}
	}
	return 0, nil
}

// observable state: what the API shows
func (s *sys) observe() (string, map[string]bool) {
	var lines []string
	exec := map[string]bool{}
	code, body := s.do("GET", "/kapacitor/v1/tasks", "?script-format=raw", nil)
	if code != 200 {
		return fmt.Sprintf("LIST-TASKS-FAILED %d %s", code, body), exec
	}
	var tl struct {
		Tasks []map[string]any `json:"tasks"`
	}
	json.Unmarshal(body, &tl)
	for _, t := range tl.Tasks {
		id := fmt.Sprint(t["id"])
		v, _ := json.Marshal(t["vars"])
		d, _ := json.Marshal(t["dbrps"])
		e := t["executing"] == true
		exec[id] = e
		if e != s.srv.tm.IsExecuting(id) {
			lines = append(lines, fmt.Sprintf("task %s: API says executing=%v, the task master says %v", id, e, s.srv.tm.IsExecuting(id)))
		}
		lines = append(lines, fmt.Sprintf("task %s type=%v status=%v executing=%v template=%v dbrps=%s vars=%s script=%q", id, t["type"], t["status"], e, t["template-id"], d, v, t["script"]))
	}
	// the task master executes nothing the catalogue does not list as enabled
	for _, id := range []string{"t1", "t2"} {
		if s.srv.tm.IsExecuting(id) && !exec[id] {
			lines = append(lines, fmt.Sprintf("task %s: API says executing=false or does not list it, yet the task master is executing a task of that id", id))
		}
	}
	// pagination returns the corresponding slice of the full list
	if len(tl.Tasks) >= 2 {
		code, body := s.do("GET", "/kapacitor/v1/tasks", "?script-format=raw&offset=1&limit=5&fields=id", nil)
		var pg struct {
			Tasks []map[string]any `json:"tasks"`
		}
		json.Unmarshal(body, &pg)
		var want, got []string
		for _, t := range tl.Tasks[1:] {
			want = append(want, fmt.Sprint(t["id"]))
		}
		for _, t := range pg.Tasks {
			got = append(got, fmt.Sprint(t["id"]))
		}
		if code != 200 || fmt.Sprint(got) != fmt.Sprint(want) {
			lines = append(lines, fmt.Sprintf("LIST-PAGE offset=1 limit=5 answered %d %v, the full list from position 1 is %v", code, got, want))
		}
	}
	code, body = s.do("GET", "/kapacitor/v1/templates", "?script-format=raw", nil)
	if code != 200 {
		return fmt.Sprintf("LIST-TEMPLATES-FAILED %d %s", code, body), exec
	}
	var pl struct {
		Templates []map[string]any `json:"templates"`
	}
	json.Unmarshal(body, &pl)
	for _, t := range pl.Templates {
		lines = append(lines, fmt.Sprintf("template %v type=%v script=%q", t["id"], t["type"], t["script"]))
	}
	sort.Strings(lines)
	return strings.Join(lines, "\n"), exec
}

// ---------------------------------------------------------------- running histories

type Case struct {
	Ops    []int
	Crash  bool // also restart at every transaction boundary of the last operation
	Preset int  // 0: empty catalogue; 1: templates p1 and p1x with one task each (t1 enabled from p1, t2 disabled from p1x)
}

// preset: operation names executed before the history proper (histories also start from a non-initial state)
var presets = [][]string{
	nil,
	{"template-create(p1,TPL1)", "template-create(p1x,TPL1)", "create(t1,template p1,V1,enabled)", "create(t2,template p1x,V2,disabled)"},
}

func opIndex(name string) int {
	for i, o := range ops() {
		if o.Name == name {
			return i
		}
	}
	panic("no operation " + name)
}

type step struct {
	code  int
	state string
}

// sameButStarted: cur equals prev except that enabled tasks which were not executing (an earlier start had failed)
// may be executing now: a rejected template update rolls its tasks back by storing and restarting them, and an
// enabled task executing its last accepted definition is what the property asks for. The opposite direction (a
// rejected request stopping a task) is a difference.
func sameButStarted(prev, cur string) bool {
	if prev == cur {
		return true
	}
	pl, cl := strings.Split(prev, "\n"), strings.Split(cur, "\n")
	if len(pl) != len(cl) {
		return false
	}
	for i := range pl {
		if pl[i] != cl[i] && strings.Replace(pl[i], " status=enabled executing=false ", " status=enabled executing=true ", 1) != cl[i] {
			return false
		}
	}
	return true
}

type problem struct{ key, msg string }

// taskLine: the line of task id in a state if it contains sub, else ""
func taskLine(state, id, sub string) string {
	for _, l := range strings.Split(state, "\n") {
		if strings.HasPrefix(l, "task "+id+" ") && strings.Contains(l, sub) {
			return l
		}
	}
	return ""
}

func hist(c Case) string {
	all := ops()
	var s []string
	if c.Preset > 0 {
		s = append(s, "<preset: "+strings.Join(presets[c.Preset], ", ")+">")
	}
	for _, i := range c.Ops {
		s = append(s, all[i].Name)
	}
	return "[" + strings.Join(s, ", ") + "]"
}

// normalise: a state as it must look after a restart (every enabled task whose start succeeds executes again)
func afterRestart(state string) string {
	var out []string
	for _, l := range strings.Split(state, "\n") {
		if strings.HasPrefix(l, "task ") && strings.Contains(l, "status=enabled") {
			if strings.Contains(l, "other") {
				// its definition cannot start (undeclared db/rp): after a restart it is enabled and not executing
				l = strings.Replace(l, "executing=true", "executing=false", 1)
			} else {
				l = strings.Replace(l, "executing=false", "executing=true", 1)
			}
		}
		out = append(out, l)
	}
	return strings.Join(out, "\n")
}

// initialState: what the API shows after the preset, before the first operation of the history
var initialState = map[int]string{}

func run(t *testing.T, c Case, wantSnaps bool) (steps []step, crashStates []string, snapsOfLast int, p *problem) {
	all := ops()
	dir, _ := os.MkdirTemp(kit.TmpDir(), "c14-")
	defer os.RemoveAll(dir)
	s := &sys{dir: dir, path: filepath.Join(dir, "kap.db")}
	leak, pan := kit.Bubble(t, func() {
		if err := s.open(); err != nil {
			p = &problem{"internal", err.Error()}
			return
		}
		kit.Wait()
		for _, name := range presets[c.Preset] {
			o := all[opIndex(name)]
			if code, body := s.do(o.Method, o.Path, "", o.Body); code >= 300 {
				p = &problem{"internal", fmt.Sprintf("preset operation %s answered %d %s", name, code, body)}
				return
			}
			kit.Wait()
		}
		if _, ok := initialState[c.Preset]; !ok {
			initialState[c.Preset], _ = s.observe()
		}
		for k, oi := range c.Ops {
			o := all[oi]
			last := k == len(c.Ops)-1
			code := 0
			if o.Method == "" {
				s.close()
				kit.Wait()
				if err := s.open(); err != nil {
					p = &problem{"restart-failed", fmt.Sprintf("%s: %v", hist(c), err)}
					return
				}
				code = 200
			} else if o.Method == "WRITE" {
				s.armed = last && wantSnaps
				for i := 0; i < 4; i++ {
					ts := kit.T0.Add(time.Second)
					if i == 3 {
						ts = ts.Add(time.Second)
					}
					s.srv.tm.WritePoints("db", "rp", imodels.ConsistencyLevelAll, []imodels.Point{kit.MkPoint("a", map[string]string{"h": fmt.Sprint(i)}, map[string]any{"v": int64(i)}, ts)})
					kit.Wait()
				}
				s.armed = false
				code = 200
			} else {
				if last && wantSnaps {
					s.armed = true
				}
				code, _ = s.do(o.Method, o.Path, "", o.Body)
				s.armed = false
				if code == 0 {
					p = &problem{"internal", "no route for " + o.Name}
					return
				}
			}
			kit.Wait()
			st, _ := s.observe()
			steps = append(steps, step{code, st})
		}
		s.close()
		kit.Wait()
		// crash points of the last operation
		snapsOfLast = len(s.snaps)
		if wantSnaps {
			seen := map[string]bool{}
			for _, fn := range s.snaps {
				data, _ := os.ReadFile(fn)
				key := string(data)
				if seen[key] {
					continue
				}
				seen[key] = true
				s2 := &sys{dir: dir, path: filepath.Join(dir, "crash.db")}
				os.WriteFile(s2.path, data, 0o600)
				if err := s2.open(); err != nil {
					p = &problem{"restart-failed", fmt.Sprintf("%s, crash inside the last operation: %v", hist(c), err)}
					return
				}
				kit.Wait()
				st, _ := s2.observe()
				crashStates = append(crashStates, st)
				s2.close()
				kit.Wait()
			}
		}
	})
	if pan != nil {
		return steps, nil, 0, &problem{"panic", fmt.Sprintf("%s: %v", hist(c), rep.Short(fmt.Sprint(pan)))}
	}
	if leak != "" && p == nil {
		return steps, crashStates, snapsOfLast, &problem{"goroutine-leak", fmt.Sprintf("%s: %s", hist(c), rep.Short(leak))}
	}
	return
}

// startFailure: the view holds an enabled task whose definition cannot start; requests that store such a task
// are answered 500 although the task is stored (documented exception)
func startFailure(state string) bool {
	for _, l := range strings.Split(state, "\n") {
		if strings.HasPrefix(l, "task ") && strings.Contains(l, "status=enabled") && strings.Contains(l, "other") {
			return true
		}
	}
	return false
}

func opClass(name string) string {
	if i := strings.Index(name, "("); i > 0 {
		return name[:i]
	}
	return name
}

func check(t *testing.T, c Case, r *rep.R, cache map[string][]step) []problem {
	all := ops()
	steps, crashStates, nsnaps, p := run(t, c, c.Crash)
	if r != nil {
		r.Add("evaluations", 1)
		r.Add("transitions", int64(len(c.Ops)))
		r.Add("crash_points", int64(len(crashStates)))
		_ = nsnaps
	}
	if p != nil {
		return []problem{*p}
	}
	var ps []problem
	add := func(k, m string) {
		for _, q := range ps {
			if q.key == k {
				return
			}
		}
		ps = append(ps, problem{k, m})
	}
	prev := initialState[c.Preset]
	templateDeleted := false
	startFailed := map[string]bool{} // ids whose last start attempt failed and that were not (re)started since
	for k, st := range steps {
		o := all[c.Ops[k]]
		cls := opClass(o.Name)
		h := hist(Case{Ops: c.Ops[:k+1], Preset: c.Preset})
		if strings.Contains(st.state, "API says executing") || strings.Contains(st.state, "LIST-") || strings.Contains(st.state, "the task master is executing") {
			add("api-inconsistent:"+cls, fmt.Sprintf("after %s:\n%s", h, st.state))
		}
		switch {
		case o.Method == "":
			// O3: a clean restart changes nothing but brings every enabled task back to executing
			if st.state != afterRestart(prev) {
				add("restart-changes-state", fmt.Sprintf("after %s the API shows\n%s\nbefore the restart it showed\n%s", h, st.state, prev))
			}
		case o.Method == "WRITE":
			// O9: an execution failing at run time changes nothing in the catalogue: the tasks and templates keep
			// their last accepted definition; enabled tasks may have stopped executing
			pl, cl := strings.Split(prev, "\n"), strings.Split(st.state, "\n")
			same := len(pl) == len(cl)
			for i := 0; same && i < len(pl); i++ {
				if pl[i] == cl[i] {
					continue
				}
				if strings.HasPrefix(pl[i], "task ") && strings.Replace(pl[i], " status=enabled executing=true ", " status=enabled executing=false ", 1) == cl[i] {
					startFailed[strings.Fields(pl[i])[1]] = true
					continue
				}
				same = false
			}
			if !same {
				add("runtime-failure-changed-catalogue", fmt.Sprintf("%s: an execution failed at run time, afterwards the API shows\n%s\nbefore it showed\n%s", h, st.state, prev))
			}
		case st.code >= 400:
			// O1: a rejected request leaves no trace (a task that was stored but failed to start is the documented exception)
			if !sameButStarted(prev, st.state) && !(st.code == 500 && startFailure(st.state)) {
				add("rejected-request-left-a-trace:"+cls, fmt.Sprintf("%s: the last request was answered %d, yet the API shows\n%s\nbefore it showed\n%s", h, st.code, st.state, prev))
			}
		default:
			// O2 (partly): accepted requests that must have an effect
			if strings.HasPrefix(o.Name, "delete(") && strings.Contains(st.state, "task "+o.Name[7:9]+" ") {
				add("delete-without-effect", fmt.Sprintf("%s: answered %d but the task is still listed:\n%s", h, st.code, st.state))
			}
			if strings.HasPrefix(o.Name, "create(t") && !strings.Contains(st.state, "task "+o.Name[7:9]+" ") {
				add("create-without-effect", fmt.Sprintf("%s: answered %d but the task is not listed:\n%s", h, st.code, st.state))
			}
		}
		// O4: executing iff enabled (and startable)
		for _, l := range strings.Split(st.state, "\n") {
			if !strings.HasPrefix(l, "task ") {
				continue
			}
			en := strings.Contains(l, "status=enabled")
			ex := strings.Contains(l, "executing=true")
			// (an enabled task keeps executing the definition it was started with when its stored definition is
			// updated, and an enabled task whose start failed stays stopped until it is disabled/enabled or the
			// daemon restarts, even if its stored definition is repaired meanwhile)
			id := strings.Fields(l)[1]
			if o.Method == "" || ex || !en {
				delete(startFailed, id)
			}
			if en && !ex && strings.Contains(l, "other") {
				startFailed[id] = true
			}
			if (ex && !en) || (en && !ex && !startFailed[id]) {
				add("executing-vs-enabled:"+cls, fmt.Sprintf("after %s: %s", h, l))
			}
		}
		// O8: an accepted template rename takes the template's tasks along
		if o.Name == "template-update(p1,id p2)" && st.code < 300 {
			for _, l := range strings.Split(prev, "\n") {
				if strings.HasPrefix(l, "task ") && strings.Contains(l, " template=p1 ") {
					id := strings.Fields(l)[1]
					if taskLine(st.state, id, " template=p2 ") == "" {
						add("template-rename-lost-tasks", fmt.Sprintf("%s: task %s was created from template p1, after the accepted rename to p2 the API shows\n%s", h, id, st.state))
					}
				}
			}
		}
		// O5: template update all or none
		if strings.HasPrefix(o.Name, "template-delete(p1)") && st.code < 300 {
			// tasks created from a template keep naming it after it was deleted; a later template of the same id
			// is a different template and does not adopt them
			templateDeleted = true
		}
		if strings.HasPrefix(o.Name, "template-update(p1,TPL") && !templateDeleted {
			newScript := TPL2
			if strings.Contains(o.Name, "TPL3") {
				newScript = TPL3
			}
			nNew, nOld := 0, 0
			for _, l := range strings.Split(st.state, "\n") {
				if strings.HasPrefix(l, "task ") && strings.Contains(l, "template=p1 ") {
					if strings.Contains(l, fmt.Sprintf("script=%q", newScript)) {
						nNew++
					} else {
						nOld++
					}
				}
			}
			tmplNew := strings.Contains(st.state, fmt.Sprintf("template p1 type=stream script=%q", newScript))
			if (nNew > 0 && nOld > 0) || (tmplNew && nOld > 0) || (!tmplNew && nNew > 0 && !strings.Contains(prev, fmt.Sprintf("script=%q", newScript))) {
				add("template-update-partial", fmt.Sprintf("after %s (answered %d): %d tasks of the template have the new script, %d the old one, template updated: %v\n%s", h, st.code, nNew, nOld, tmplNew, st.state))
			}
		}
		// O5b: an operation on template p1 does not touch the tasks of another template (p1x)
		if strings.HasPrefix(o.Name, "template-") && strings.Contains(o.Name, "(p1,") {
			for _, l := range strings.Split(prev, "\n") {
				if strings.HasPrefix(l, "task ") && strings.Contains(l, "template=p1x") && !strings.Contains(st.state, l) {
					add("other-templates-tasks-changed:"+cls, fmt.Sprintf("after %s the task of template p1x that read\n%s\nis gone or changed:\n%s", h, l, st.state))
				}
			}
		}
		prev = st.state
	}
	// O6: a rejected request in the middle has no hidden effect either: the rest of the history ends as without it
	for k, st := range steps {
		if st.code < 400 || k == len(steps)-1 || all[c.Ops[k]].Method == "" {
			continue
		}
		if st.code == 500 && startFailure(st.state) {
			continue
		}
		var without []int
		without = append(without, c.Ops[:k]...)
		without = append(without, c.Ops[k+1:]...)
		key := fmt.Sprint(c.Preset, without)
		ws, ok := cache[key]
		if !ok {
			var p2 *problem
			ws, _, _, p2 = run(t, Case{Ops: without, Preset: c.Preset}, false)
			if p2 != nil {
				continue
			}
			cache[key] = ws
			if r != nil {
				r.Add("differential_runs", 1)
			}
		}
		if len(ws) > 0 && ws[len(ws)-1].state != steps[len(steps)-1].state {
			add("rejected-request-hidden-effect:"+opClass(all[c.Ops[k]].Name), fmt.Sprintf("%s ends with\n%s\nbut without the rejected request #%d (%s, answered %d) the same history ends with\n%s", hist(c), steps[len(steps)-1].state, k+1, all[c.Ops[k]].Name, st.code, ws[len(ws)-1].state))
		}
	}
	// O7: a crash inside the last operation leaves the state before it or the state after it
	if c.Crash && len(steps) > 0 {
		before := initialState[c.Preset]
		if len(steps) > 1 {
			before = steps[len(steps)-2].state
		}
		after := steps[len(steps)-1].state
		for _, cs := range crashStates {
			if cs != afterRestart(before) && cs != afterRestart(after) {
				add("crash-inside-operation:"+strings.ReplaceAll(all[c.Ops[len(c.Ops)-1]].Name, " ", "_"), fmt.Sprintf("%s: a restart from the storage as it stood inside the last operation shows\n%s\nwhich is neither the state before it\n%s\nnor the state after it\n%s", hist(c), cs, afterRestart(before), afterRestart(after)))
			}
		}
	}
	if r != nil && len(steps) > 0 && steps[len(steps)-1].state != "" {
		r.AddDistinct("nontrivial", 1)
	}
	return ps
}

func TestCheck(t *testing.T) {
	defer kit.CleanupTmp()
	r := rep.New("C14", "model_checking",
		"task catalogue on the real task_store service (real handlers invoked through their registered routes, real Bolt file, real TaskMaster): EVERY history up to the depth bound, from the empty catalogue and from a preset catalogue (two templates whose ids are in a prefix relation, one task each), over 30 API operations on two task ids and two templates (create enabled/disabled, with a bad script, with a batch script whose start fails, from a template with good/ill-typed vars; update of script, status, id (rename, also onto an existing id), template, vars; delete; template create/update (one update fails on the tasks lacking a variable)/rename/delete; clean restart; and one non-API event: data on which every running execution of script A fails at run time). After every operation the API's view (task list and template list, raw scripts) is read back. Oracles: a rejected request leaves the view unchanged and has no hidden effect (the rest of the history ends as it does without the request); an accepted delete/create has its effect; executing (API and TaskMaster agree, and the TaskMaster executes nothing the catalogue does not list) iff enabled and startable; a paged listing equals the slice of the full listing; an operation on one template leaves the tasks of the other alone; a clean restart changes nothing but brings enabled tasks back; a template update changes all of its tasks or none; an accepted template rename takes the template's tasks along; an execution failing at run time changes nothing in the catalogue (the stored definitions stay the last accepted ones). For every history up to a smaller depth, the Bolt file is copied before and after every storage transaction of the last operation and a fresh service is started on every copy: the view must equal the state before or after that operation. states = histories, transitions = operations")
	defer r.Write()
	r.Assumption("an enabled task whose start fails stays stored (enabled, not executing) although the request is answered 500: documented exception to 'no trace'")
	r.Assumption("bbolt commit atomicity is trusted")
	if rep.ReplayPath() != "" {
		var c Case
		if err := rep.LoadReplay(&c); err != nil {
			t.Fatal(err)
		}
		for _, p := range check(t, c, r, map[string][]step{}) {
			r.Violation(p.key, p.msg, c)
		}
		return
	}
	depth, crashDepth := 3, 3
	if rep.Thorough() {
		depth, crashDepth = 4, 3
	}
	nops := len(ops())
	cache := map[string][]step{}
	n := 0
	var rec func(h []int)
	stop := false
	rec = func(h []int) {
		if stop {
			return
		}
		if len(h) > 0 {
			n++
			if rep.Mine(n) {
				if r.Expired() {
					r.Cap("deadline")
					stop = true
					return
				}
				// maximal histories and (for the crash enumeration) the shorter ones
				if len(h) == depth || len(h) <= crashDepth {
					for preset := range presets {
						c := Case{Ops: append([]int(nil), h...), Crash: len(h) <= crashDepth && preset == 0, Preset: preset}
						// from the preset catalogue: all histories one step shorter than the depth bound
						if preset > 0 && len(h) != depth-1 {
							continue
						}
						r.Add("states", 1)
						for _, p := range check(t, c, r, cache) {
							r.Violation(p.key, p.msg, c)
						}
					}
					c := Case{Ops: append([]int(nil), h...)}
					if r.WantSample() && n%2003 == 7 {
						r.Sample(map[string]any{"history": hist(c)})
					}
				}
			}
		}
		if len(h) == depth {
			return
		}
		for i := 0; i < nops; i++ {
			if len(h) > 0 && ops()[i].Method == "" && ops()[h[len(h)-1]].Method == "" {
				continue
			}
			rec(append(h, i))
		}
	}
	rec(nil)
	r.Note("depth", depth)
	r.Note("crash_depth", crashDepth)
}
