package kapacitor

import (
	"time"

	"github.com/influxdata/kapacitor/edge"
)

// VerifWinBuf gives the C03 harness direct access to the window ring buffer
// (added by -overlay only; not part of the repository).
type VerifWinBuf struct{ b windowTimeBuffer }

func (v *VerifWinBuf) Insert(p edge.PointMessage)             { v.b.insert(p) }
func (v *VerifWinBuf) Purge(oldest time.Time, inclusive bool) { v.b.purge(oldest, inclusive) }
func (v *VerifWinBuf) Points() []edge.BatchPointMessage       { return v.b.points() }
func (v *VerifWinBuf) State() (start, stop, size, length, capacity int) {
	return v.b.start, v.b.stop, v.b.size, len(v.b.window), cap(v.b.window)
}
func (v *VerifWinBuf) SlotTimes() []time.Time {
	r := make([]time.Time, len(v.b.window))
	for i, p := range v.b.window {
		if p != nil {
			r[i] = p.Time()
		}
	}
	return r
}
