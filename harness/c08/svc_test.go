package c08

import (
	"fmt"
	"os"
	"path/filepath"
	"sort"
	"strings"
	"testing"
	"time"

	"github.com/influxdata/kapacitor/alert"
	"github.com/influxdata/kapacitor/zz_verif/kit"
	"github.com/influxdata/kapacitor/zz_verif/rep"
)

// Part B: the persistence operations an alert node and a task deletion perform on the alert service
// (Collect of an event, UpdateEvent, DeleteTopic), over several topics and ids, with restarts anywhere
// in the history, against a map.

type SvcOp struct {
	Kind  string // collect update delete-topic restart
	Topic string
	ID    string
	Level int
}

func (o SvcOp) String() string {
	switch o.Kind {
	case "task-restart":
		return "task-restart(" + o.Topic + ")"
	case "restart":
		return "restart"
	case "delete-topic":
		return "deleteTopic(" + o.Topic + ")"
	}
	return fmt.Sprintf("%s(%s,%s,%s)", o.Kind, o.Topic, o.ID, alert.Level(o.Level))
}

func svcAlphabet() []SvcOp {
	var r []SvcOp
	for _, t := range []string{"t1", "t2"} {
		for _, id := range []string{"a", "b"} {
			for _, l := range []int{0, 3} {
				r = append(r, SvcOp{Kind: "collect", Topic: t, ID: id, Level: l})
			}
		}
		r = append(r, SvcOp{Kind: "delete-topic", Topic: t})
	}
	r = append(r, SvcOp{Kind: "update", Topic: "t2", ID: "a", Level: 2})
	r = append(r, SvcOp{Kind: "restart"})
	// a task restarted inside the running process: its alert node closes the topic when it stops and restores it when
	// it starts again, then looks every ID up with EventState
	r = append(r, SvcOp{Kind: "task-restart", Topic: "t1"})
	return r
}

type SvcCase struct{ Ops []SvcOp }

func svcLevels(env *kit.AlertEnv) string {
	var ks []string
	for _, tp := range []string{"t1", "t2"} {
		es, err := env.Alert.EventStates(tp, alert.OK)
		if err != nil {
			continue
		}
		for id, e := range es {
			if e.Level != alert.OK {
				ks = append(ks, fmt.Sprintf("%s/%s=%s", tp, id, e.Level))
			}
		}
	}
	sort.Strings(ks)
	return strings.Join(ks, ",")
}

func modelLevels(m map[string]map[string]int) string {
	var ks []string
	for tp, ids := range m {
		for id, l := range ids {
			if l != 0 {
				ks = append(ks, fmt.Sprintf("%s/%s=%s", tp, id, alert.Level(l)))
			}
		}
	}
	sort.Strings(ks)
	return strings.Join(ks, ",")
}

// runSvc executes the history plus a final restart; after every step the non-OK states the service reports
// must equal the model's.
func runSvc(t *testing.T, c SvcCase) (p *problem, transitions int) {
	dir, _ := os.MkdirTemp(kit.TmpDir(), "c08svc-")
	defer os.RemoveAll(dir)
	path := filepath.Join(dir, "svc.db")
	model := map[string]map[string]int{}
	leak, pan := kit.Bubble(t, func() {
		env, err := kit.NewAlertEnv("c08svc", kit.AlertOpts{Persist: true, BoltPath: path})
		if err != nil {
			p = &problem{"internal", err.Error()}
			return
		}
		ops := append(append([]SvcOp(nil), c.Ops...), SvcOp{Kind: "restart"})
		for i, o := range ops {
			switch o.Kind {
			case "collect", "update":
				st := alert.EventState{ID: o.ID, Level: alert.Level(o.Level), Time: kit.T0.Add(time.Duration(i+1) * time.Second), Message: "m"}
				var err error
				if o.Kind == "collect" {
					err = env.Alert.Collect(alert.Event{Topic: o.Topic, State: st})
				} else {
					err = env.Alert.UpdateEvent(o.Topic, st)
				}
				if err != nil {
					p = &problem{"svc-error:" + o.Kind, fmt.Sprintf("%v after %v: %v", o, c.Ops[:i], err)}
					return
				}
				if model[o.Topic] == nil {
					model[o.Topic] = map[string]int{}
				}
				model[o.Topic][o.ID] = o.Level
			case "delete-topic":
				if err := env.Alert.DeleteTopic(o.Topic); err != nil {
					p = &problem{"svc-error:delete-topic", fmt.Sprintf("%v after %v: %v", o, c.Ops[:i], err)}
					return
				}
				delete(model, o.Topic)
			case "task-restart":
				if err := env.Alert.CloseTopic(o.Topic); err != nil {
					p = &problem{"svc-error:close-topic", err.Error()}
					return
				}
				kit.Wait()
				if err := env.Alert.RestoreTopic(o.Topic); err != nil {
					p = &problem{"svc-error:restore-topic", fmt.Sprintf("%v after %v: %v", o, c.Ops[:i], err)}
					return
				}
			case "restart":
				kit.Wait()
				if err := env.Shutdown(false); err != nil {
					p = &problem{"svc-error:shutdown", err.Error()}
					return
				}
				env, err = kit.NewAlertEnv("c08svc", kit.AlertOpts{Persist: true, BoltPath: path})
				if err != nil {
					p = &problem{"svc-error:restart", fmt.Sprintf("restart after %v: %v", c.Ops[:i], err)}
					return
				}
			}
			kit.Wait()
			transitions++
			if got, want := svcLevels(env), modelLevels(model); got != want {
				kind := "svc-state"
				if o.Kind == "restart" {
					kind = "svc-state-after-restart"
				}
				p = &problem{kind, fmt.Sprintf("after %v: non-OK event states %q, want %q", ops[:i+1], got, want)}
				env.Shutdown(true)
				return
			}
			// the single-ID lookup an alert node uses when it (re)starts
			for tp, ids := range model {
				for id, l := range ids {
					if l == 0 {
						continue
					}
					es, ok, err := env.Alert.EventState(tp, id)
					if err != nil || !ok || int(es.Level) != l {
						p = &problem{"svc-event-state-lookup", fmt.Sprintf("after %v: EventState(%s,%s) = (level %s, found %v, err %v), recorded level %s", ops[:i+1], tp, id, es.Level, ok, err, alert.Level(l))}
						env.Shutdown(true)
						return
					}
				}
			}
		}
		env.Shutdown(true)
	})
	if pan != nil {
		return &problem{"svc-panic", fmt.Sprintf("%v after %v", pan, c.Ops)}, transitions
	}
	if leak != "" && p == nil {
		return &problem{"svc-goroutine-leak", leak}, transitions
	}
	return p, transitions
}

func svcPart(t *testing.T, r *rep.R) {
	depth := 4
	if rep.Thorough() {
		depth = 5
	}
	alpha := svcAlphabet()
	n := 0
	var rec func(h []SvcOp)
	rec = func(h []SvcOp) {
		if len(h) == depth {
			n++
			if !rep.Mine(n) {
				return
			}
			if r.Expired() {
				r.Cap("deadline (service histories)")
				return
			}
			c := SvcCase{Ops: append([]SvcOp(nil), h...)}
			p, tr := runSvc(t, c)
			r.Add("service_histories", 1)
			r.Add("service_transitions", int64(tr))
			if p != nil {
				r.Violation(p.kind, p.msg, c)
			}
			return
		}
		for _, o := range alpha {
			if len(h) > 0 && o.Kind == "restart" && h[len(h)-1].Kind == "restart" {
				continue
			}
			rec(append(h, o))
		}
	}
	rec(nil)
	r.Note("service_history_depth", depth)
}
