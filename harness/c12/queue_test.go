package c12

import (
	"fmt"

	"github.com/influxdata/kapacitor"
	"github.com/influxdata/kapacitor/zz_verif/rep"
)

// Part (c): explicit-state search over the real CircularQueue against a slice.
// Operations: E (enqueue the next integer), D1 D2 D3 D9 (dequeue n), state key = (head, tail, Len, cap)
// read through an overlay accessor. The contents are determined by the history and checked with Peek.

type qrun struct {
	q    *kapacitor.CircularQueue[int]
	ref  []int
	next int
}

func (r *qrun) apply(op string) (err error) {
	defer func() {
		if p := recover(); p != nil {
			err = fmt.Errorf("panic: %v", p)
		}
	}()
	switch op {
	case "E":
		r.q.Enqueue(r.next)
		r.ref = append(r.ref, r.next)
		r.next++
	default:
		n := int(op[1] - '0')
		r.q.Dequeue(n)
		if n > len(r.ref) {
			n = len(r.ref)
		}
		r.ref = r.ref[n:]
	}
	return nil
}

func (r *qrun) check() string {
	if r.q.Len != len(r.ref) {
		return fmt.Sprintf("Len %d, reference %d", r.q.Len, len(r.ref))
	}
	for i, v := range r.ref {
		if got := r.q.Peek(i); got != v {
			return fmt.Sprintf("Peek(%d) = %d, reference %d (reference %v)", i, got, v, r.ref)
		}
	}
	return ""
}

func queueBFS(r *rep.R, maxLen int) {
	ops := []string{"E", "D1", "D2", "D3", "D9"}
	seen := map[string]bool{}
	mk := func() *qrun { return &qrun{q: kapacitor.NewCircularQueue[int]()} }
	root := mk()
	seen[kapacitor.VerifQueueKey(root.q)] = true
	frontier := [][]string{{}}
	states, transitions, depth := 1, 0, 0
	for len(frontier) > 0 && depth < 64 {
		var next [][]string
		for _, hist := range frontier {
			for _, op := range ops {
				run := mk()
				for _, h := range hist {
					run.apply(h)
				}
				if op == "E" && len(run.ref) >= maxLen {
					continue
				}
				h := append(append([]string(nil), hist...), op)
				transitions++
				if err := run.apply(op); err != nil {
					r.Violation("queue-panic", fmt.Sprintf("%v after %v", err, h), map[string]any{"Queue": h})
					continue
				}
				func() {
					defer func() {
						if p := recover(); p != nil {
							r.Violation("queue-panic", fmt.Sprintf("panic in Peek: %v after %v", p, h), map[string]any{"Queue": h})
						}
					}()
					if msg := run.check(); msg != "" {
						r.Violation("queue-content", fmt.Sprintf("%s after %v", msg, h), map[string]any{"Queue": h})
					}
				}()
				k := kapacitor.VerifQueueKey(run.q)
				if !seen[k] {
					seen[k] = true
					states++
					next = append(next, h)
				}
			}
		}
		frontier = next
		depth++
	}
	r.Add("queue_states", int64(states))
	r.Add("queue_transitions", int64(transitions))
	r.Add("transitions", int64(transitions))
	r.AddDistinct("states", int64(states))
	r.Note("queue_bfs_closed", len(frontier) == 0)
	if len(frontier) > 0 {
		r.Cap("queue BFS not closed")
	}
}

func queueReplay(r *rep.R, hist []string) {
	run := &qrun{q: kapacitor.NewCircularQueue[int]()}
	for i, op := range hist {
		if err := run.apply(op); err != nil {
			r.Violation("queue-panic", fmt.Sprintf("%v after %v", err, hist[:i+1]), map[string]any{"Queue": hist})
			return
		}
		func() {
			defer func() {
				if p := recover(); p != nil {
					r.Violation("queue-panic", fmt.Sprintf("panic in Peek: %v", p), map[string]any{"Queue": hist})
				}
			}()
			if msg := run.check(); msg != "" {
				r.Violation("queue-content", fmt.Sprintf("%s after %v", msg, hist[:i+1]), map[string]any{"Queue": hist})
			}
		}()
	}
}
