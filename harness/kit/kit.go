// Package kit builds real kapacitor TaskMasters with harness-owned services so
// that complete pipelines run deterministically inside testing/synctest bubbles.
// Nothing here changes /repo: it is compiled into the module as the virtual
// package zz_verif/kit through go's -overlay.
package kit

import (
	"fmt"
	"runtime/debug"
	"sort"
	"strings"
	"sync"
	"testing"
	"testing/synctest"
	"time"

	imodels "github.com/influxdata/influxdb/models"
	"github.com/influxdata/kapacitor"
	"github.com/influxdata/kapacitor/alert"
	"github.com/influxdata/kapacitor/edge"
	"github.com/influxdata/kapacitor/keyvalue"
	"github.com/influxdata/kapacitor/models"
	"github.com/influxdata/kapacitor/services/httpd"
	"github.com/influxdata/kapacitor/uuid"
)

// ---------------------------------------------------------------- captured data

type Pt struct {
	Name   string
	DB, RP string
	Group  string
	Dims   []string
	ByName bool
	Tags   map[string]string
	Fields map[string]any
	T      time.Time
}

func (p Pt) String() string {
	return fmt.Sprintf("{%s g=%q t=%d tags=%s f=%s}", p.Name, p.Group, p.T.UnixNano()/1e6, FmtTags(p.Tags), FmtFields(p.Fields))
}

type Bt struct {
	Name   string
	Group  string
	Dims   []string
	ByName bool
	Tags   map[string]string
	TMax   time.Time
	Points []Pt // Name/Group empty for batch points
}

func (b Bt) String() string {
	var sb strings.Builder
	fmt.Fprintf(&sb, "[%s g=%q tmax=%d tags=%s:", b.Name, b.Group, b.TMax.UnixNano()/1e6, FmtTags(b.Tags))
	for _, p := range b.Points {
		fmt.Fprintf(&sb, " (t=%d tags=%s f=%s)", p.T.UnixNano()/1e6, FmtTags(p.Tags), FmtFields(p.Fields))
	}
	sb.WriteString("]")
	return sb.String()
}

func FmtTags(m map[string]string) string {
	ks := make([]string, 0, len(m))
	for k := range m {
		ks = append(ks, k)
	}
	sort.Strings(ks)
	var sb strings.Builder
	for i, k := range ks {
		if i > 0 {
			sb.WriteByte(',')
		}
		fmt.Fprintf(&sb, "%s=%q", k, m[k])
	}
	return sb.String()
}

func FmtFields(m map[string]any) string {
	ks := make([]string, 0, len(m))
	for k := range m {
		ks = append(ks, k)
	}
	sort.Strings(ks)
	var sb strings.Builder
	for i, k := range ks {
		if i > 0 {
			sb.WriteByte(',')
		}
		fmt.Fprintf(&sb, "%s=%T(%v)", k, m[k], m[k])
	}
	return sb.String()
}

// Item is one thing a sink saw, in arrival order.
type Item struct {
	P *Pt
	B *Bt
}

type Sink struct {
	Items []Item
}

func (s *Sink) Points() []Pt {
	var r []Pt
	for _, it := range s.Items {
		if it.P != nil {
			r = append(r, *it.P)
		}
	}
	return r
}
func (s *Sink) Batches() []Bt {
	var r []Bt
	for _, it := range s.Items {
		if it.B != nil {
			r = append(r, *it.B)
		}
	}
	return r
}

type ErrRec struct {
	Task, Node, Msg, Err string
}

func copyTags(t models.Tags) map[string]string {
	m := make(map[string]string, len(t))
	for k, v := range t {
		m[k] = v
	}
	return m
}
func copyFields(f models.Fields) map[string]any {
	m := make(map[string]any, len(f))
	for k, v := range f {
		m[k] = v
	}
	return m
}

func PtOf(p edge.PointMessage) Pt {
	d := p.Dimensions()
	return Pt{Name: p.Name(), DB: p.Database(), RP: p.RetentionPolicy(), Group: string(p.GroupID()),
		Dims: append([]string(nil), d.TagNames...), ByName: d.ByName,
		Tags: copyTags(p.Tags()), Fields: copyFields(p.Fields()), T: p.Time()}
}

func BtOf(b edge.BufferedBatchMessage) Bt {
	d := b.Dimensions()
	r := Bt{Name: b.Name(), Group: string(b.GroupID()), Dims: append([]string(nil), d.TagNames...), ByName: d.ByName,
		Tags: copyTags(b.Tags()), TMax: b.Time()}
	for _, bp := range b.Points() {
		r.Points = append(r.Points, Pt{Tags: copyTags(bp.Tags()), Fields: copyFields(bp.Fields()), T: bp.Time()})
	}
	return r
}

// ---------------------------------------------------------------- diagnostics

// Diag implements kapacitor.Diagnostic. |log().prefix('X') nodes become in-process
// sinks: whatever they see is appended to Sinks["X"].
type Diag struct {
	mu     sync.Mutex
	sinks  map[string]*Sink
	Errors []ErrRec
	Events []string // task life-cycle events
	// OnPoint, if set, is called (outside the lock) for every point a log node sees.
	OnPoint func(prefix string, p Pt)
	OnBatch func(prefix string, b Bt)
	// OnBatchRaw, if set, is also handed the message itself (to look at it again later: an emitted message
	// must not change after it was emitted)
	OnBatchRaw func(prefix string, b Bt, raw edge.BufferedBatchMessage)
	// Queries started by batch query nodes
	Queries []string
}

func NewDiag() *Diag { return &Diag{sinks: map[string]*Sink{}} }

func (d *Diag) Sink(prefix string) *Sink {
	d.mu.Lock()
	defer d.mu.Unlock()
	s := d.sinks[prefix]
	if s == nil {
		s = &Sink{}
		d.sinks[prefix] = s
	}
	return s
}

func (d *Diag) SinkNames() []string {
	d.mu.Lock()
	defer d.mu.Unlock()
	var r []string
	for k := range d.sinks {
		r = append(r, k)
	}
	sort.Strings(r)
	return r
}

func (d *Diag) ErrorsCopy() []ErrRec {
	d.mu.Lock()
	defer d.mu.Unlock()
	return append([]ErrRec(nil), d.Errors...)
}

func (d *Diag) WithTaskContext(task string) kapacitor.TaskDiagnostic { return &taskDiag{d, task} }
func (d *Diag) WithTaskMasterContext(tm string) kapacitor.Diagnostic { return d }
func (d *Diag) WithNodeContext(node string) kapacitor.NodeDiagnostic {
	return &nodeDiag{d: d, node: node}
}
func (d *Diag) WithEdgeContext(task, parent, child string) kapacitor.EdgeDiagnostic {
	return edgeDiag{}
}
func (d *Diag) TaskMasterOpened() {}
func (d *Diag) TaskMasterClosed() {}
func (d *Diag) ev(s string) {
	d.mu.Lock()
	d.Events = append(d.Events, s)
	d.mu.Unlock()
}
func (d *Diag) StartingTask(id string) { d.ev("starting " + id) }
func (d *Diag) StartedTask(id string)  { d.ev("started " + id) }
func (d *Diag) StoppedTask(id string)  { d.ev("stopped " + id) }
func (d *Diag) StoppedTaskWithError(id string, err error) {
	d.ev("stopped-with-error " + id + ": " + err.Error())
}
func (d *Diag) TaskMasterDot(string) {}

type edgeDiag struct{}

func (edgeDiag) ClosingEdge(collected, emitted int64) {}

type taskDiag struct {
	d    *Diag
	task string
}

func (t *taskDiag) WithNodeContext(node string) kapacitor.NodeDiagnostic {
	return &nodeDiag{d: t.d, task: t.task, node: node}
}
func (t *taskDiag) Error(msg string, err error, ctx ...keyvalue.T) {
	t.d.mu.Lock()
	t.d.Errors = append(t.d.Errors, ErrRec{Task: t.task, Msg: msg, Err: errStr(err)})
	t.d.mu.Unlock()
}

func errStr(err error) string {
	if err == nil {
		return ""
	}
	return err.Error()
}

type nodeDiag struct {
	d          *Diag
	task, node string
}

func (n *nodeDiag) Error(msg string, err error, ctx ...keyvalue.T) {
	n.d.mu.Lock()
	n.d.Errors = append(n.d.Errors, ErrRec{Task: n.task, Node: n.node, Msg: msg, Err: errStr(err)})
	n.d.mu.Unlock()
}
func (n *nodeDiag) AlertTriggered(level alert.Level, id string, message string, rows *models.Row) {}
func (n *nodeDiag) SettingReplicas(new int, old int, id string)                                   {}
func (n *nodeDiag) StartingBatchQuery(q string) {
	n.d.mu.Lock()
	n.d.Queries = append(n.d.Queries, q)
	n.d.mu.Unlock()
}
func (n *nodeDiag) LogPointData(key, prefix string, data edge.PointMessage) {
	p := PtOf(data)
	n.d.mu.Lock()
	s := n.d.sinks[prefix]
	if s == nil {
		s = &Sink{}
		n.d.sinks[prefix] = s
	}
	s.Items = append(s.Items, Item{P: &p})
	f := n.d.OnPoint
	n.d.mu.Unlock()
	if f != nil {
		f(prefix, p)
	}
}
func (n *nodeDiag) LogBatchData(key, prefix string, data edge.BufferedBatchMessage) {
	b := BtOf(data)
	n.d.mu.Lock()
	s := n.d.sinks[prefix]
	if s == nil {
		s = &Sink{}
		n.d.sinks[prefix] = s
	}
	s.Items = append(s.Items, Item{B: &b})
	f := n.d.OnBatch
	fr := n.d.OnBatchRaw
	n.d.mu.Unlock()
	if f != nil {
		f(prefix, b)
	}
	if fr != nil {
		fr(prefix, b, data)
	}
}
func (n *nodeDiag) UDFLog(s string) {}

// ---------------------------------------------------------------- fake services

type httpdFake struct{}

func (httpdFake) AddRoutes([]httpd.Route) error { return nil }
func (httpdFake) DelRoutes([]httpd.Route)       {}
func (httpdFake) URL() string                   { return "http://localhost:9092/kapacitor/v1" }

// StrictHTTPD refuses a pattern that is already registered, as the real mux does (a task with two httpOut nodes of
// the same endpoint fails at run time: a way to obtain a failed task).
type StrictHTTPD struct {
	mu     sync.Mutex
	routes map[string]bool
}

func NewStrictHTTPD() *StrictHTTPD { return &StrictHTTPD{routes: map[string]bool{}} }

func (h *StrictHTTPD) AddRoutes(rs []httpd.Route) error {
	h.mu.Lock()
	defer h.mu.Unlock()
	for _, r := range rs {
		k := r.Method + " " + r.Pattern
		if h.routes[k] {
			return fmt.Errorf("pattern %q already registered", r.Pattern)
		}
	}
	for _, r := range rs {
		h.routes[r.Method+" "+r.Pattern] = true
	}
	return nil
}

func (h *StrictHTTPD) DelRoutes(rs []httpd.Route) {
	h.mu.Lock()
	defer h.mu.Unlock()
	for _, r := range rs {
		delete(h.routes, r.Method+" "+r.Pattern)
	}
}

func (*StrictHTTPD) URL() string { return "http://localhost:9092/kapacitor/v1" }

type taskStoreFake struct{}

func (taskStoreFake) SaveSnapshot(id string, snapshot *kapacitor.TaskSnapshot) error { return nil }
func (taskStoreFake) HasSnapshot(id string) bool                                     { return false }
func (taskStoreFake) LoadSnapshot(id string) (*kapacitor.TaskSnapshot, error) {
	return nil, fmt.Errorf("no snapshot")
}

type Deadman struct{}

func (Deadman) Interval() time.Duration { return 10 * time.Second }
func (Deadman) Threshold() float64      { return 0 }
func (Deadman) Id() string              { return "{{ .TaskName }}-deadman" }
func (Deadman) Message() string         { return "deadman" }
func (Deadman) Global() bool            { return false }

type serverInfo struct{}

func (serverInfo) ClusterID() uuid.UUID    { return uuid.Nil }
func (serverInfo) ServerID() uuid.UUID     { return uuid.Nil }
func (serverInfo) Hostname() string        { return "verif" }
func (serverInfo) Version() string         { return "verif" }
func (serverInfo) Product() string         { return "kapacitor" }
func (serverInfo) Platform() string        { return "verif" }
func (serverInfo) NumTasks() int64         { return 0 }
func (serverInfo) NumEnabledTasks() int64  { return 0 }
func (serverInfo) NumSubscriptions() int64 { return 0 }
func (serverInfo) Uptime() time.Duration   { return 0 }

// ---------------------------------------------------------------- environment

type Env struct {
	TM   *kapacitor.TaskMaster
	Diag *Diag
}

// NewEnv returns an opened TaskMaster with the minimal harness services.
func NewEnv(name string) (*Env, error) {
	d := NewDiag()
	tm := kapacitor.NewTaskMaster(name, serverInfo{}, d)
	tm.HTTPDService = httpdFake{}
	tm.TaskStore = taskStoreFake{}
	tm.DeadmanService = Deadman{}
	tm.DefaultRetentionPolicy = "rp"
	if err := tm.Open(); err != nil {
		return nil, err
	}
	return &Env{TM: tm, Diag: d}, nil
}

var DBRP = []kapacitor.DBRP{{Database: "db", RetentionPolicy: "rp"}}

// StartStream defines and starts a stream task.
func (e *Env) StartStream(id, script string) (*kapacitor.ExecutingTask, error) {
	return e.Start(id, script, kapacitor.StreamTask, DBRP)
}

func (e *Env) Start(id, script string, tt kapacitor.TaskType, dbrps []kapacitor.DBRP) (*kapacitor.ExecutingTask, error) {
	t, err := e.TM.NewTask(id, script, tt, dbrps, 0, nil)
	if err != nil {
		return nil, fmt.Errorf("NewTask: %w", err)
	}
	et, err := e.TM.StartTask(t)
	if err != nil {
		return nil, fmt.Errorf("StartTask: %w", err)
	}
	return et, nil
}

// MkPoint builds an influx line-protocol point.
func MkPoint(name string, tags map[string]string, fields map[string]any, t time.Time) imodels.Point {
	p, err := imodels.NewPoint(name, imodels.NewTags(tags), imodels.Fields(fields), t)
	if err != nil {
		panic(err)
	}
	return p
}

func (e *Env) Write(db, rp string, pts ...imodels.Point) error {
	return e.TM.WritePoints(db, rp, imodels.ConsistencyLevelAll, pts)
}

// ---------------------------------------------------------------- bubbles

// BubbleHorizon is the virtual time after which a bubble whose body has not returned is declared hung.
// Without it a body blocked forever next to a periodic timer (a task's throughput ticker, say) would make
// synctest advance the virtual clock without end.
var BubbleHorizon = 6 * time.Hour

// Bubble runs f inside a synctest bubble (virtual time, quiescence detection).
// It returns leak != "" if goroutines were still blocked when f returned (or f itself was still blocked
// after BubbleHorizon of virtual time: leak then starts with "hang:"), and pan != nil if f panicked.
func Bubble(t *testing.T, f func()) (leak string, pan any) {
	hung := false
	var bodyPanic any
	defer func() {
		if r := recover(); r != nil {
			s := fmt.Sprint(r)
			if strings.Contains(s, "deadlock: main bubble goroutine has exited") {
				leak = s
				if hung {
					leak = fmt.Sprintf("hang: the body was still blocked after %v of virtual time (%s)", BubbleHorizon, s)
				}
			} else {
				pan = r
			}
		}
		if bodyPanic != nil {
			// the body's own panic is what matters; goroutines it left behind are a consequence
			pan, leak = bodyPanic, ""
		}
	}()
	synctest.Test(t, func(t *testing.T) {
		type res struct {
			p     any
			stack string
		}
		done := make(chan res, 1)
		go func() {
			defer func() {
				if r := recover(); r != nil {
					done <- res{r, string(debug.Stack())}
					return
				}
				done <- res{}
			}()
			f()
		}()
		tm := time.NewTimer(BubbleHorizon)
		select {
		case r := <-done:
			tm.Stop()
			if r.p != nil {
				// (a panic raised here, in the bubble's test goroutine, could not be recovered by anybody)
				bodyPanic = fmt.Sprintf("%v\n%s", r.p, r.stack)
			}
		case <-tm.C:
			hung = true
		}
	})
	return
}

// Wait waits until every other goroutine in the bubble is durably blocked.
func Wait() { synctest.Wait() }

// T0 is the (virtual) start of time inside bubbles: 2000-01-01 00:00:00 UTC.
var T0 = time.Date(2000, 1, 1, 0, 0, 0, 0, time.UTC)
