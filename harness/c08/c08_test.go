package c08

import (
	"encoding/json"
	"fmt"
	"os"
	"path/filepath"
	"strings"
	"testing"
	"time"

	"github.com/influxdata/kapacitor/alert"
	"github.com/influxdata/kapacitor/services/storage"
	"github.com/influxdata/kapacitor/zz_verif/kit"
	"github.com/influxdata/kapacitor/zz_verif/rep"
)

type Config struct {
	Task  string // "anon" (.exec only), "named" (.topic only), "both"
	SCO   bool
	IDTag bool // the alert id is built from the group and a tag that is not a group-by dimension
}

func (c Config) script() string {
	s := "stream|from().measurement('m').groupBy('g')|alert().info(lambda: \"l\" >= 1).warn(lambda: \"l\" >= 2).crit(lambda: \"l\" >= 3)"
	if c.Task == "anon" || c.Task == "both" {
		s += ".exec('cmd')"
	}
	if c.Task == "named" || c.Task == "both" {
		s += ".topic('nt')"
	}
	if c.SCO {
		s += ".stateChangesOnly()"
	}
	if c.IDTag {
		s += ".id('{{ .Group }}/{{ index .Tags \"x\" }}')"
	}
	return s
}

// Case: levels per point; point i belongs to id IDs[i]
type Case struct {
	Cfg    Config
	Levels []int
	IDs    []string
}

// snapshot of the Bolt file at a transaction boundary of the topic state store
type boundary struct {
	file     string
	point    int  // index of the point in flight
	after    bool // after the commit (else before)
	txOfPt   int  // number of this transaction among those of the point (0-based)
	anonLog  int  // events the exec handler had been handed
	namedLog int
	mem      string // non-OK levels of the topics in memory when the snapshot was taken
}

type snapStore struct {
	storage.Interface
	h *harness
}

func (s *snapStore) Update(f func(storage.Tx) error) error {
	s.h.snap(false)
	err := s.Interface.Update(f)
	s.h.snap(true)
	return err
}

type harness struct {
	dir        string
	cur        *kit.AlertEnv
	cmd        *kit.FakeCommander
	named      *kit.RecHandler
	point      int
	txOfPt     int
	boundaries []boundary
	recording  bool
	startMem   string // non-OK levels in memory when recording started
	n          int
	cfg        Config
}

func (h *harness) snap(after bool) {
	if !h.recording {
		return
	}
	// the handler queues are drained synchronously enough for this sequential harness: the event of the
	// point in flight is handed to the buffered handler before Collect persists; wait for the handler goroutines
	// is not possible here (we are inside the node goroutine), so the logs are read as they are and the oracle
	// allows the last event to be repeated
	data, err := os.ReadFile(h.cur.Store.Path())
	if err != nil {
		return
	}
	h.n++
	fn := filepath.Join(h.dir, fmt.Sprintf("snap-%d.db", h.n))
	os.WriteFile(fn, data, 0o600)
	b := boundary{file: fn, point: h.point, after: after, txOfPt: h.txOfPt}
	if after {
		h.txOfPt++
		b.mem = nonOK(h.topicLevels(h.cfg))
	} else if n := len(h.boundaries); n > 0 {
		b.mem = h.boundaries[n-1].mem // nothing was committed since the previous boundary
	} else {
		b.mem = h.startMem
	}
	h.boundaries = append(h.boundaries, b)
}

func (h *harness) open(path string, cfg Config, record bool) error {
	h.cmd = &kit.FakeCommander{}
	h.named = &kit.RecHandler{Name: "named"}
	h.recording = false
	h.cfg = cfg
	env, err := kit.NewAlertEnv("c08", kit.AlertOpts{Persist: true, BoltPath: path, Commander: h.cmd,
		WrapStore: func(ns string, s storage.Interface) storage.Interface {
			if ns == "topic_states_store" {
				return &snapStore{Interface: s, h: h}
			}
			return s
		}})
	if err != nil {
		return err
	}
	h.cur = env
	if cfg.Task != "anon" {
		env.Alert.RegisterAnonHandler("nt", h.named)
	}
	if _, err := env.StartStream("t", cfg.script()); err != nil {
		return err
	}
	h.recording = record
	return nil
}

type evrec struct {
	ID    string
	Level alert.Level
	T     int64
}

func (h *harness) logs() (anon, named []evrec) {
	for _, c := range h.cmd.Copy() {
		var ad alert.Data
		if json.Unmarshal(c.Stdin, &ad) == nil {
			anon = append(anon, evrec{ad.ID, ad.Level, ad.Time.Unix()})
		}
	}
	for _, e := range h.named.Copy() {
		named = append(named, evrec{e.ID, e.Level, e.T / 1e9})
	}
	return
}

func (h *harness) feed(c Case, i int) error {
	p := kit.MkPoint("m", map[string]string{"g": c.IDs[i], "x": "k"}, map[string]any{"l": int64(c.Levels[i])}, kit.T0.Add(time.Duration(i+1)*time.Second))
	return h.cur.Write("db", "rp", p)
}

func (h *harness) topicLevels(cfg Config) map[string]alert.Level {
	r := map[string]alert.Level{}
	var topics []string
	if cfg.Task != "named" {
		topics = append(topics, "c08:t:alert2")
	}
	if cfg.Task != "anon" {
		topics = append(topics, "nt")
	}
	for _, tp := range topics {
		es, err := h.cur.Alert.EventStates(tp, alert.OK)
		if err != nil {
			continue
		}
		for id, e := range es {
			r[tp+"/"+id] = e.Level
		}
	}
	return r
}

func nonOK(m map[string]alert.Level) string {
	var ks []string
	for k, v := range m {
		if v != alert.OK {
			ks = append(ks, fmt.Sprintf("%s=%s", k, v))
		}
	}
	sortStrings(ks)
	return strings.Join(ks, ",")
}

func sortStrings(a []string) {
	for i := range a {
		for j := i + 1; j < len(a); j++ {
			if a[j] < a[i] {
				a[i], a[j] = a[j], a[i]
			}
		}
	}
}

type problem struct{ kind, msg string }

func perID(l []evrec, id string) []evrec {
	var r []evrec
	for _, e := range l {
		if e.ID == id {
			r = append(r, e)
		}
	}
	return r
}

func fmtEv(l []evrec) string {
	var s []string
	for _, e := range l {
		s = append(s, fmt.Sprintf("%s@%d", e.Level, e.T-kit.T0.Unix()))
	}
	return "[" + strings.Join(s, " ") + "]"
}

// acceptable: post must equal full[k:] or full[k-1:] (the last event told before the crash may be repeated)
func acceptable(full, pre, post []evrec) bool {
	k := len(pre)
	eq := func(a, b []evrec) bool {
		if len(a) != len(b) {
			return false
		}
		for i := range a {
			if a[i].Level != b[i].Level || a[i].T != b[i].T {
				return false
			}
		}
		return true
	}
	if k <= len(full) && eq(post, full[k:]) {
		return true
	}
	if k >= 1 && k <= len(full) && eq(post, full[k-1:]) {
		return true
	}
	return false
}

// class of the transition the point in flight makes for its id (levels of the uninterrupted history)
func transClass(c Case, point int) string {
	prev := 0
	for i := 0; i < point; i++ {
		if c.IDs[i] == c.IDs[point] {
			prev = c.Levels[i]
		}
	}
	cur := c.Levels[point]
	switch {
	case prev == cur:
		return "same"
	case prev == 0:
		return "raise"
	case cur == 0:
		return "recover"
	}
	return "change"
}

func boundaryKey(c Case, b boundary) string {
	sco := "all"
	if c.Cfg.SCO {
		sco = "sco"
	}
	task := c.Cfg.Task
	if c.Cfg.IDTag {
		task += "+idtag"
	}
	return fmt.Sprintf("%s:%s:%s:%s-tx%d", task, sco, transClass(c, b.point), map[bool]string{false: "before", true: "after"}[b.after], b.txOfPt)
}

func fromOf(b boundary, txCount map[int]int) int {
	// events told before the crash: at a boundary of point i the handlers have been told everything of points < i;
	// the event of point i itself may or may not have been handed over (it is handed over before the first persist)
	if b.after && b.txOfPt == txCount[b.point]-1 {
		return b.point + 1 // the point was completely processed and persisted
	}
	return b.point
}

func txCounts(bs []boundary) map[int]int {
	m := map[int]int{}
	for _, b := range bs {
		if b.after {
			m[b.point]++
		}
	}
	return m
}

type restartResult struct {
	restored, end       map[string]alert.Level
	postAnon, postNamed []evrec
	boundaries          []boundary
	p                   *problem
}

// restart opens a fresh service + task on a copy of file, feeds points from.. and (optionally) records the
// transaction boundaries of that continuation
func restart(t *testing.T, c Case, dir, file, tag string, from int, record bool) (res restartResult) {
	h2 := &harness{dir: dir}
	leak, pan := kit.Bubble(t, func() {
		cp := filepath.Join(dir, "restart-"+tag+".db")
		data, _ := os.ReadFile(file)
		os.WriteFile(cp, data, 0o600)
		if err := h2.open(cp, c.Cfg, false); err != nil {
			res.p = &problem{"restart-error", fmt.Sprintf("restart failed: %v", err)}
			return
		}
		kit.Wait()
		res.restored = h2.topicLevels(c.Cfg)
		h2.n = 1000 * (1 + len(tag))
		h2.startMem = nonOK(res.restored)
		h2.recording = record
		for i := from; i < len(c.Levels); i++ {
			h2.point, h2.txOfPt = i, 0
			if err := h2.feed(c, i); err != nil {
				res.p = &problem{"internal", err.Error()}
				return
			}
			kit.Wait()
		}
		h2.recording = false
		res.postAnon, res.postNamed = h2.logs()
		res.end = h2.topicLevels(c.Cfg)
		h2.cur.Shutdown(true)
	})
	res.boundaries = h2.boundaries
	if pan != nil {
		res.p = &problem{"restart-panic", fmt.Sprintf("panic after restart: %v", pan)}
	} else if leak != "" && res.p == nil {
		res.p = &problem{"goroutine-leak", leak}
	}
	return
}

func run(t *testing.T, c Case, stats *stat) (ps []problem) {
	dir, _ := os.MkdirTemp(kit.TmpDir(), "c08-")
	defer os.RemoveAll(dir)
	h := &harness{dir: dir}
	var fullAnon, fullNamed []evrec
	var finalLevels map[string]alert.Level
	var p *problem
	// 1. uninterrupted run, recording a snapshot at every transaction boundary
	leak, pan := kit.Bubble(t, func() {
		if err := h.open(filepath.Join(dir, "main.db"), c.Cfg, true); err != nil {
			p = &problem{"internal", err.Error()}
			return
		}
		kit.Wait()
		for i := range c.Levels {
			h.point, h.txOfPt = i, 0
			nb := len(h.boundaries)
			if err := h.feed(c, i); err != nil {
				p = &problem{"internal", err.Error()}
				return
			}
			kit.Wait()
			// handler logs as of the boundaries of this point: all events of earlier points plus possibly this one's.
			a, n := h.logs()
			for j := nb; j < len(h.boundaries); j++ {
				h.boundaries[j].anonLog, h.boundaries[j].namedLog = len(a), len(n)
			}
		}
		fullAnon, fullNamed = h.logs()
		finalLevels = h.topicLevels(c.Cfg)
		h.recording = false
		h.cur.Shutdown(false)
	})
	if pan != nil || leak != "" {
		return []problem{{"internal", fmt.Sprintf("uninterrupted run: panic=%v leak=%s", pan, leak)}}
	}
	if p != nil {
		return []problem{*p}
	}
	stats.boundaries += int64(len(h.boundaries))
	txCount := txCounts(h.boundaries)
	ids := map[string]bool{}
	for _, id := range c.IDs {
		if c.Cfg.IDTag {
			ids["g="+id+"/k"] = true
		} else {
			ids["m:g="+id] = true
		}
	}
	seen := map[string]bool{}
	add := func(kind, key, msg string) {
		k := kind + ":" + key
		if !seen[k] {
			seen[k] = true
			ps = append(ps, problem{k, msg})
		}
	}
	desc := func(b boundary) string {
		return fmt.Sprintf("crash %s the commit of transaction %d of point %d", map[bool]string{false: "before", true: "after"}[b.after], b.txOfPt, b.point)
	}
	// 2. crash at every boundary, restart on the copy, continue
	for bi, b := range h.boundaries {
		from := fromOf(b, txCount)
		second := c.Cfg.Task == "both" && (rep.Thorough() || c.IDs[0] != c.IDs[1])
		res := restart(t, c, dir, b.file, fmt.Sprint(bi), from, second)
		stats.restarts++
		key := boundaryKey(c, b)
		where := fmt.Sprintf("%s (levels %v ids %v, %s)", desc(b), c.Levels, c.IDs, c.Cfg.script())
		if res.p != nil {
			add(res.p.kind, key, where+": "+res.p.msg)
			continue
		}
		restoredLevels, endLevels, postAnon, postNamed := res.restored, res.end, res.postAnon, res.postNamed
		// (i) right after the restart every id is at the last level recorded for it (OK / absent otherwise)
		if nonOK(restoredLevels) != b.mem {
			add("restored-state", key, fmt.Sprintf("%s: topic state right after restart %q, recorded at the crash %q", where, nonOK(restoredLevels), b.mem))
		}
		// (ii) final state
		if nonOK(endLevels) != nonOK(finalLevels) {
			add("final-state", key, fmt.Sprintf("%s: final topic state %q, uninterrupted run %q (state right after restart %q)", where, nonOK(endLevels), nonOK(finalLevels), nonOK(restoredLevels)))
		}
		// (iii) handler logs per id
		for id := range ids {
			if c.Cfg.Task != "named" {
				full := perID(fullAnon, id)
				// told before the crash: events of points before `from`... count by time
				var pre []evrec
				for _, e := range full {
					if e.T < kit.T0.Unix()+int64(from)+1 {
						pre = append(pre, e)
					}
				}
				post := perID(postAnon, id)
				if !acceptableAny(full, pre, post, from) {
					add("handler-log:anon", key, fmt.Sprintf("%s: exec handler of %s: uninterrupted %s, told before the crash %s, told after restart %s", where, id, fmtEv(full), fmtEv(pre), fmtEv(post)))
				}
			}
			if c.Cfg.Task != "anon" {
				full := perID(fullNamed, id)
				var pre []evrec
				for _, e := range full {
					if e.T < kit.T0.Unix()+int64(from)+1 {
						pre = append(pre, e)
					}
				}
				post := perID(postNamed, id)
				if !acceptableAny(full, pre, post, from) {
					add("handler-log:named", key, fmt.Sprintf("%s: handler on topic nt for %s: uninterrupted %s, told before the crash %s, told after restart %s", where, id, fmtEv(full), fmtEv(pre), fmtEv(post)))
				}
			}
		}
		if nonOK(restoredLevels) != "" {
			stats.nonTrivial++
		}
		// 3. a second crash at every boundary of the continuation (tasks with two topics: the two topics can
		// disagree after the first restart)
		if second {
			tx2 := txCounts(res.boundaries)
			stats.boundaries += int64(len(res.boundaries))
			for bj, b2 := range res.boundaries {
				from2 := fromOf(b2, tx2)
				r2 := restart(t, c, dir, b2.file, fmt.Sprintf("%d-%d", bi, bj), from2, false)
				stats.restarts++
				stats.second++
				key2 := "second:" + boundaryKey(c, b2)
				where2 := fmt.Sprintf("%s, restart, then %s (levels %v ids %v, %s)", desc(b), desc(b2), c.Levels, c.IDs, c.Cfg.script())
				if r2.p != nil {
					add(r2.p.kind, key2, where2+": "+r2.p.msg)
					continue
				}
				if nonOK(r2.restored) != b2.mem {
					add("restored-state", key2, fmt.Sprintf("%s: topic state right after the second restart %q, recorded at the second crash %q", where2, nonOK(r2.restored), b2.mem))
				}
				// the final state is only comparable when the first restart alone already converges
				if nonOK(endLevels) == nonOK(finalLevels) && nonOK(r2.end) != nonOK(finalLevels) {
					add("final-state", key2, fmt.Sprintf("%s: final topic state %q, uninterrupted run %q", where2, nonOK(r2.end), nonOK(finalLevels)))
				}
			}
		}
	}
	return ps
}

// acceptableAny: the handlers had certainly been told `pre` (events of completely processed points); the event of
// the point in flight may or may not have been handed over before the crash.
func acceptableAny(full, pre, post []evrec, from int) bool {
	if acceptable(full, pre, post) {
		return true
	}
	k := len(pre)
	if k < len(full) && full[k].T == kit.T0.Unix()+int64(from)+1 {
		// the next event of the uninterrupted run belongs to the point in flight
		if acceptable(full, full[:k+1], post) {
			return true
		}
	}
	return false
}

func max0(x int) int {
	if x < 0 {
		return 0
	}
	return x
}

type stat struct{ boundaries, restarts, nonTrivial, second int64 }

func TestCheck(t *testing.T) {
	defer kit.CleanupTmp()
	r := rep.New("C08", "fault_enumeration",
		"alert state across restarts: tasks whose alert has an anonymous topic (.exec handler), a named topic, or both, with and without stateChangesOnly (and once with an id template that reads a tag outside the group-by dimensions), topic persistence on, over a real alert service on a real Bolt file; level sequences over {OK,INFO,WARNING,CRITICAL} for one id (all sequences of length 4) and two interleaved ids (all sequences of length 2 each, both orders a,b,a,b and b,a,b,a so that either id sorts first in the store); one uninterrupted run records a copy of the Bolt file before and after the commit of EVERY transaction of the topic state store; for every such boundary: fresh alert service + TaskMaster on the copy, same task, the remaining data re-fed (starting with the point in flight unless it was completely persisted). For tasks with both topics a SECOND crash is enumerated at every transaction boundary of the continuation after the first restart (quick: two-id histories only). Oracle: right after every restart the topic states equal the states in memory at the crash; final topic state equals the uninterrupted run, per handler and id the post-restart events are the uninterrupted run's remaining events, at worst preceded by a repeat of the last event told before the crash. Part B: every history up to the depth bound of the persistence operations an alert node / a task deletion perform on the real alert service over the real Bolt file (Collect and UpdateEvent over 2 topics x 2 ids x {OK,CRITICAL}, DeleteTopic, restart), plus a final restart: after every step the non-OK event states the service reports equal a map. non-trivial = restarts whose restored storage held at least one non-OK state")
	defer r.Write()
	r.Assumption("bbolt commit atomicity is trusted: the file between two commits equals the file after the earlier commit; torn pages are out of scope")
	r.Assumption("at a crash the events already handed to the (buffered) handlers count as told; events still queued in memory are an at-most-once delivery limit outside the stated crash model")
	r.Assumption("event durations are not compared across a restart")

	if rep.ReplayPath() != "" {
		var sc SvcCase
		if err := rep.LoadReplay(&sc); err == nil && len(sc.Ops) > 0 {
			if p, _ := runSvc(t, sc); p != nil {
				r.Violation(p.kind, p.msg, sc)
			}
			r.Add("evaluations", 1)
			return
		}
		var c Case
		if err := rep.LoadReplay(&c); err != nil {
			t.Fatal(err)
		}
		var st stat
		for _, p := range run(t, c, &st) {
			r.Violation(p.kind, p.msg, c)
		}
		r.Add("evaluations", 1)
		return
	}
	svcPart(t, r)
	var cases []Case
	l1, l2 := 4, 2
	if rep.Thorough() {
		l1, l2 = 5, 3
	}
	for _, task := range []string{"anon", "named", "both", "anon+idtag"} {
		for _, sco := range []bool{false, true} {
			cfg := Config{Task: task, SCO: sco}
			if task == "anon+idtag" {
				if !sco {
					continue
				}
				cfg = Config{Task: "anon", SCO: sco, IDTag: true}
			}
			// one id
			n := 1
			for i := 0; i < l1; i++ {
				n *= 4
			}
			for x := 0; x < n; x++ {
				c := Case{Cfg: cfg}
				y := x
				for i := 0; i < l1; i++ {
					c.Levels = append(c.Levels, y%4)
					c.IDs = append(c.IDs, "a")
					y /= 4
				}
				cases = append(cases, c)
			}
			// two ids interleaved
			n = 1
			for i := 0; i < 2*l2; i++ {
				n *= 4
			}
			for _, order := range [][]string{{"a", "b"}, {"b", "a"}} {
				for x := 0; x < n; x++ {
					c := Case{Cfg: cfg}
					y := x
					for i := 0; i < 2*l2; i++ {
						c.Levels = append(c.Levels, y%4)
						c.IDs = append(c.IDs, order[i%2])
						y /= 4
					}
					cases = append(cases, c)
				}
			}
		}
	}
	var st stat
	for i, c := range cases {
		if !rep.Mine(i) {
			continue
		}
		if r.Expired() {
			r.Cap("deadline")
			break
		}
		for _, p := range run(t, c, &st) {
			r.Violation(p.kind, p.msg, c)
		}
		r.Add("histories", 1)
		if r.WantSample() && i%500 == 9 {
			r.Sample(map[string]any{"script": c.Cfg.script(), "levels": c.Levels, "ids": c.IDs})
		}
	}
	r.Add("evaluations", st.restarts)
	r.Add("crash_points", st.boundaries)
	r.Add("second_restarts", st.second)
	r.AddDistinct("nontrivial", st.nonTrivial)
}
