package kit

import (
	"context"
	"errors"
	"sync"
	"time"

	"github.com/influxdata/flux"
	"github.com/influxdata/kapacitor/influxdb"
)

// FakeInflux is an in-memory InfluxDBService: every client records writes and queries.
type FakeInflux struct {
	mu      sync.Mutex
	Written []influxdb.Point // all points written, in write order
	Writes  int
	Queries []string
	// BeforeWrite, if set, is called at the start of every Write (e.g. a scheduler gate or a latency)
	BeforeWrite func()
	// QueryFunc answers queries (batch tasks)
	QueryFunc func(q influxdb.Query) (*influxdb.Response, error)
	WriteErr  error
}

func (f *FakeInflux) NewNamedClient(name string) (influxdb.Client, error) {
	return &fakeInfluxClient{f}, nil
}

type fakeInfluxClient struct{ f *FakeInflux }

func (c *fakeInfluxClient) Ping(ctx context.Context) (time.Duration, string, error) {
	return 0, "fake", nil
}
func (c *fakeInfluxClient) Write(bp influxdb.BatchPoints) error {
	if c.f.BeforeWrite != nil {
		c.f.BeforeWrite()
	}
	c.f.mu.Lock()
	defer c.f.mu.Unlock()
	if c.f.WriteErr != nil {
		return c.f.WriteErr
	}
	c.f.Writes++
	c.f.Written = append(c.f.Written, bp.Points()...)
	return nil
}
func (c *fakeInfluxClient) WriteV2(w influxdb.FluxWrite) error { return errors.New("not supported") }
func (c *fakeInfluxClient) Query(q influxdb.Query) (*influxdb.Response, error) {
	c.f.mu.Lock()
	c.f.Queries = append(c.f.Queries, q.Command)
	qf := c.f.QueryFunc
	c.f.mu.Unlock()
	if qf != nil {
		return qf(q)
	}
	return &influxdb.Response{}, nil
}
func (c *fakeInfluxClient) QueryFlux(q influxdb.FluxQuery) (flux.ResultIterator, error) {
	return nil, errors.New("not supported")
}
func (c *fakeInfluxClient) QueryFluxResponse(q influxdb.FluxQuery) (*influxdb.Response, error) {
	return nil, errors.New("not supported")
}
func (c *fakeInfluxClient) CreateBucketV2(bucket string, org string, orgID string) error { return nil }

func (f *FakeInflux) WrittenCopy() []influxdb.Point {
	f.mu.Lock()
	defer f.mu.Unlock()
	return append([]influxdb.Point(nil), f.Written...)
}
