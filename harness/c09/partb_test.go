package c09

import (
	"encoding/json"
	"errors"
	"fmt"
	"github.com/influxdata/kapacitor/services/storage"
	"sort"
	"strings"
	"testing"
	"testing/synctest"
	"time"

	"github.com/influxdata/kapacitor/alert"
	alertservice "github.com/influxdata/kapacitor/services/alert"
	"github.com/influxdata/kapacitor/zz_verif/kit"
)

// ---------------------------------------------------------------- part B: handler specs of services/alert, sequential, depth bounded

type BOp struct {
	Kind  string // collect register deregister update rename publish unpublish
	Topic string
	ID    string // event id or handler id
	Level alert.Level
	Match string
	NewID string
}

func (o BOp) String() string {
	switch o.Kind {
	case "collect":
		return fmt.Sprintf("collect(%s,%s,%s)", o.Topic, o.ID, o.Level)
	case "register", "update":
		return fmt.Sprintf("%s(%s,%q)", o.Kind, o.ID, o.Match)
	case "rename":
		return fmt.Sprintf("rename(%s->%s,%q)", o.ID, o.NewID, o.Match)
	}
	return fmt.Sprintf("%s(%s)", o.Kind, o.ID)
}

var matches = []string{"", `changed() == TRUE`, `level() >= WARNING`, `name() == 'm'`, `taskName() == 'tk'`, `alertDuration() > 1s`, `"tag" == 'x'`}

func opsB(thorough bool) []BOp {
	var r []BOp
	for _, tp := range []string{"t1", "t2"} {
		for _, id := range []string{"a", "b"} {
			for _, l := range []alert.Level{alert.OK, alert.Warning, alert.Critical} {
				r = append(r, BOp{Kind: "collect", Topic: tp, ID: id, Level: l})
			}
		}
	}
	// an event without any tag: a match expression that reads a tag cannot be evaluated on it (no match)
	r = append(r, BOp{Kind: "collect", Topic: "t1", ID: "c", Level: alert.Critical})
	ms := matches
	if !thorough {
		ms = []string{"", `changed() == TRUE`, `level() >= WARNING`, `"tag" == 'x'`, `alertDuration() > 1s`}
	}
	for _, h := range []string{"h1", "h2"} {
		for _, m := range ms {
			r = append(r, BOp{Kind: "register", ID: h, Match: m})
		}
		r = append(r, BOp{Kind: "deregister", ID: h})
		r = append(r, BOp{Kind: "update", ID: h, Match: `level() >= WARNING`}, BOp{Kind: "update", ID: h, Match: ""})
	}
	r = append(r, BOp{Kind: "rename", ID: "h1", NewID: "h3", Match: ""}, BOp{Kind: "rename", ID: "h3", NewID: "h1", Match: `changed() == TRUE`})
	r = append(r, BOp{Kind: "publish", ID: "p"}, BOp{Kind: "unpublish", ID: "p"})
	// what a stopping task does to its topics: the running topic is dropped; the next event brings it back with its
	// handlers (and, with topic persistence, its non-OK states)
	r = append(r, BOp{Kind: "closetopic", ID: "t1"}, BOp{Kind: "closetopic", ID: "t2"})
	return r
}

type evData struct {
	name, task, tag string
	dur             time.Duration
}

func dataOf(id string, level alert.Level) evData {
	d := evData{name: "m", task: "tk", tag: "x"}
	if id == "b" {
		d = evData{name: "n", task: "other", tag: "y"}
	}
	if id == "c" {
		d = evData{name: "m", task: "tk", tag: ""} // no tags at all
	}
	if level == alert.Critical {
		d.dur = 2 * time.Second
	}
	return d
}

type badTopicStore struct{ storage.Interface }

func (b *badTopicStore) Update(f func(storage.Tx) error) error {
	return b.Interface.Update(func(tx storage.Tx) error { return f(&badTopicTx{Tx: tx}) })
}

type badTopicTx struct{ storage.Tx }

func (t *badTopicTx) Bucket(name []byte) storage.Tx {
	if string(name) == "tbad" {
		return &failingTx{Tx: t.Tx.Bucket(name)}
	}
	if in := t.Tx.Bucket(name); in != nil {
		return &badTopicTx{Tx: in}
	}
	return nil
}
func (t *badTopicTx) Put(key string, value []byte) error {
	if strings.Contains(key, "tbad") {
		return errors.New("injected: no writes for topic tbad")
	}
	return t.Tx.Put(key, value)
}

type failingTx struct{ storage.Tx }

func (t *failingTx) Put(key string, value []byte) error {
	return errors.New("injected: no writes for topic tbad")
}

func tagsOf(d evData) map[string]string {
	if d.tag == "" {
		return nil
	}
	return map[string]string{"tag": d.tag}
}

func refMatch(m string, level, prev alert.Level, d evData) bool {
	switch m {
	case "":
		return true
	case `changed() == TRUE`:
		return level != prev
	case `level() >= WARNING`:
		return level >= alert.Warning
	case `name() == 'm'`:
		return d.name == "m"
	case `taskName() == 'tk'`:
		return d.task == "tk"
	case `alertDuration() > 1s`:
		return d.dur > time.Second
	case `"tag" == 'x'`:
		return d.tag == "x"
	}
	panic("unknown match " + m)
}

type hmodel struct {
	match string
	log   []string
}

type modelB struct {
	closed   map[string]bool                   // closed and not collected into since
	levels   map[string]map[string]alert.Level // topic -> id -> level
	handlers map[string]*hmodel                // registered spec handlers on t1 (by id)
	publish  bool
	logs     map[string][]string // per program (handler id / "t2rec")
}

func (m *modelB) collect(topic, id string, level alert.Level, logs map[string][]string) {
	delete(m.closed, topic)
	if m.levels[topic] == nil {
		m.levels[topic] = map[string]alert.Level{}
	}
	prev, had := m.levels[topic][id]
	if !had {
		prev = alert.OK
	}
	m.levels[topic][id] = level
	d := dataOf(id, level)
	entry := fmt.Sprintf("%s/%s:%s<-%s", topic, id, level, prev)
	if topic == "t1" {
		var ids []string
		for h := range m.handlers {
			ids = append(ids, h)
		}
		sort.Strings(ids)
		for _, h := range ids {
			if refMatch(m.handlers[h].match, level, prev, d) {
				logs[h] = append(logs[h], entry)
			}
		}
		if m.publish {
			m.collect("t2", id, level, logs)
		}
	} else {
		logs["t2rec"] = append(logs["t2rec"], entry)
	}
}

// runB executes the history on a fresh alert service and compares the per-handler logs.
func runB(hist []BOp) (p *problem) {
	if p := runBP(hist, true); p != nil {
		return p
	}
	for _, o := range hist {
		if o.Kind == "closetopic" {
			// and without topic persistence: a closed topic comes back empty, but with its handlers
			if p := runBP(hist, false); p != nil {
				p.kind += ":no-persistence"
				p.msg = "(persist-topics off) " + p.msg
				return p
			}
			break
		}
	}
	return nil
}

func runBP(hist []BOp, persist bool) (p *problem) {
	cmd := &kit.FakeCommander{}
	// topic persistence is on and the store refuses every write for topic "tbad": publishing to it fails, which must
	// not keep the publish handler from serving its other target
	env, err := kit.NewAlertEnv("c09", kit.AlertOpts{Commander: cmd, Persist: persist, WrapStore: func(ns string, in storage.Interface) storage.Interface {
		return &badTopicStore{Interface: in}
	}})
	if err != nil {
		return &problem{"internal", err.Error()}
	}
	defer func() {
		env.Shutdown(true)
	}()
	as := env.Alert
	spec := func(id, topic, match string) alertservice.HandlerSpec {
		return alertservice.HandlerSpec{ID: id, Topic: topic, Kind: "exec", Match: match, Options: map[string]interface{}{"prog": id}}
	}
	if err := as.RegisterHandlerSpec(spec("t2rec", "t2", "")); err != nil {
		return &problem{"internal", "register t2rec: " + err.Error()}
	}
	m := &modelB{levels: map[string]map[string]alert.Level{}, handlers: map[string]*hmodel{}, closed: map[string]bool{}}
	want := map[string][]string{}
	t0 := time.Date(2000, 1, 1, 0, 0, 0, 0, time.UTC)
	for i, o := range hist {
		switch o.Kind {
		case "collect":
			d := dataOf(o.ID, o.Level)
			ev := alert.Event{Topic: o.Topic, State: alert.EventState{ID: o.ID, Level: o.Level, Time: t0.Add(time.Duration(i) * time.Second), Duration: d.dur},
				Data: alert.EventData{Name: d.name, TaskName: d.task, Tags: tagsOf(d)}}
			if err := as.Collect(ev); err != nil {
				return &problem{"collect-error", fmt.Sprintf("Collect failed: %v after %v", err, hist[:i+1])}
			}
			m.collect(o.Topic, o.ID, o.Level, want)
		case "register":
			err := as.RegisterHandlerSpec(spec(o.ID, "t1", o.Match))
			_, exists := m.handlers[o.ID]
			if exists != (err != nil) {
				return &problem{"register-result", fmt.Sprintf("RegisterHandlerSpec(%s) returned %v, handler already registered: %v (history %v)", o.ID, err, exists, hist[:i+1])}
			}
			if err == nil {
				m.handlers[o.ID] = &hmodel{match: o.Match}
			}
		case "deregister":
			if err := as.DeregisterHandlerSpec("t1", o.ID); err != nil {
				return &problem{"deregister-error", err.Error()}
			}
			delete(m.handlers, o.ID)
		case "update":
			old, ok := m.handlers[o.ID]
			if !ok {
				continue // updating a handler that does not exist is not part of the alphabet
			}
			if err := as.UpdateHandlerSpec(spec(o.ID, "t1", old.match), spec(o.ID, "t1", o.Match)); err != nil {
				return &problem{"update-error", fmt.Sprintf("UpdateHandlerSpec failed: %v (history %v)", err, hist[:i+1])}
			}
			old.match = o.Match
		case "rename":
			old, ok := m.handlers[o.ID]
			if _, taken := m.handlers[o.NewID]; !ok || taken {
				continue
			}
			if err := as.UpdateHandlerSpec(spec(o.ID, "t1", old.match), spec(o.NewID, "t1", o.Match)); err != nil {
				return &problem{"update-error", fmt.Sprintf("UpdateHandlerSpec (new id) failed: %v (history %v)", err, hist[:i+1])}
			}
			delete(m.handlers, o.ID)
			m.handlers[o.NewID] = &hmodel{match: o.Match}
		case "publish":
			err := as.RegisterHandlerSpec(alertservice.HandlerSpec{ID: "p", Topic: "t1", Kind: "publish", Options: map[string]interface{}{"topics": []string{"tbad", "t2"}}})
			if m.publish != (err != nil) {
				return &problem{"register-result", fmt.Sprintf("register publish handler returned %v, already registered: %v", err, m.publish)}
			}
			m.publish = true
		case "unpublish":
			if err := as.DeregisterHandlerSpec("t1", "p"); err != nil {
				return &problem{"deregister-error", err.Error()}
			}
			m.publish = false
		case "closetopic":
			if err := as.CloseTopic(o.ID); err != nil {
				return &problem{"closetopic-error", err.Error()}
			}
			m.closed[o.ID] = true
			// what survives: with persistence the non-OK states (OK states are not stored), without it nothing
			for id, l := range m.levels[o.ID] {
				if !persist || l == alert.OK {
					delete(m.levels[o.ID], id)
				}
			}
		}
		synctest.Wait()
	}
	synctest.Wait()
	got := map[string][]string{}
	for _, c := range cmd.Copy() {
		var ad alert.Data
		if err := json.Unmarshal(c.Stdin, &ad); err != nil {
			return &problem{"internal", "bad exec payload: " + err.Error()}
		}
		topic := "t1"
		if c.Spec.Prog == "t2rec" {
			topic = "t2"
		}
		got[c.Spec.Prog] = append(got[c.Spec.Prog], fmt.Sprintf("%s/%s:%s<-%s", topic, ad.ID, ad.Level, ad.PreviousLevel))
	}
	var progs []string
	for k := range want {
		progs = append(progs, k)
	}
	for k := range got {
		if _, ok := want[k]; !ok {
			progs = append(progs, k)
		}
	}
	sort.Strings(progs)
	for _, k := range progs {
		if strings.Join(got[k], " ") != strings.Join(want[k], " ") {
			kind := "spec-handler-log"
			if k == "t2rec" {
				kind = "published-log"
			}
			return &problem{kind, fmt.Sprintf("handler %s saw %v, want %v after %v", k, got[k], want[k], hist)}
		}
	}
	// topic states through the service API
	for _, tp := range []string{"t1", "t2"} {
		if m.closed[tp] {
			continue // not running: nothing to ask until the next event brings it back
		}
		max := alert.OK
		for _, l := range m.levels[tp] {
			if l > max {
				max = l
			}
		}
		ts, ok, err := as.TopicState(tp)
		if err != nil {
			return &problem{"topic-state-error", err.Error()}
		}
		if ok && ts.Level != max {
			return &problem{"service-topic-level", fmt.Sprintf("topic %s level %s, want %s after %v", tp, ts.Level, max, hist)}
		}
		for id, l := range m.levels[tp] {
			es, ok, _ := as.EventState(tp, id)
			if !ok || es.Level != l {
				return &problem{"service-event-state", fmt.Sprintf("EventState(%s,%s) = (%s,%v) want %s after %v", tp, id, es.Level, ok, l, hist)}
			}
		}
	}
	for _, e := range env.Diag.ErrorsCopy() {
		if e.Msg == "failed to evaluate match expression" && strings.Contains(e.Err, "no tag exists") {
			continue // the tagless event under a match expression that reads a tag: reported, not matched
		}
		return &problem{"service-error", fmt.Sprintf("diagnostic error %+v after %v", e, hist)}
	}
	return nil
}

func bubbleB(t *testing.T, hist []BOp) (p *problem) {
	defer func() {
		if r := recover(); r != nil {
			p = &problem{"panic", fmt.Sprintf("panic: %v after %v", r, hist)}
		}
	}()
	synctest.Test(t, func(t *testing.T) {
		p = runB(hist)
	})
	return
}

// ---------------------------------------------------------------- aggregate handler over several intervals
//
// An aggregate handler spec on t1 (interval 10s, target t2): events collected on t1 are gathered; at every interval
// end that saw at least one event a single event of id "ag" is collected on t2 whose level is the highest level of
// THAT interval's events. History alphabet: collect(t1, a|b, OK|WARNING|CRITICAL) and tick (10s pass).

func aggOps() []BOp {
	var r []BOp
	for _, id := range []string{"a", "b"} {
		for _, l := range []alert.Level{alert.OK, alert.Warning, alert.Critical} {
			r = append(r, BOp{Kind: "collect", Topic: "t1", ID: id, Level: l})
		}
	}
	return append(r, BOp{Kind: "tick"})
}

func runAgg(hist []BOp) (p *problem) {
	cmd := &kit.FakeCommander{}
	env, err := kit.NewAlertEnv("c09", kit.AlertOpts{Commander: cmd, Persist: true})
	if err != nil {
		return &problem{"internal", err.Error()}
	}
	defer func() {
		env.Shutdown(true)
	}()
	as := env.Alert
	if err := as.RegisterHandlerSpec(alertservice.HandlerSpec{ID: "t2rec", Topic: "t2", Kind: "exec", Options: map[string]interface{}{"prog": "t2rec"}}); err != nil {
		return &problem{"internal", "register t2rec: " + err.Error()}
	}
	if err := as.RegisterHandlerSpec(alertservice.HandlerSpec{ID: "agg", Topic: "t1", Kind: "aggregate", Options: map[string]interface{}{"id": "ag", "interval": 10 * time.Second, "topic": "t2"}}); err != nil {
		return &problem{"internal", "register aggregate handler: " + err.Error()}
	}
	// (the service does not stop the goroutines of its spec handlers when it is closed: deregister first)
	defer as.DeregisterHandlerSpec("t1", "agg")
	synctest.Wait()
	t0 := time.Date(2000, 1, 1, 0, 0, 0, 0, time.UTC)
	var want []string
	var pending []alert.Level
	prevAg := alert.OK
	for i, o := range hist {
		switch o.Kind {
		case "collect":
			ev := alert.Event{Topic: "t1", State: alert.EventState{ID: o.ID, Level: o.Level, Time: t0.Add(time.Duration(i) * time.Second)}, Data: alert.EventData{Name: "m", TaskName: "tk"}}
			if err := as.Collect(ev); err != nil {
				return &problem{"collect-error", fmt.Sprintf("Collect failed: %v after %v", err, hist[:i+1])}
			}
			pending = append(pending, o.Level)
		case "tick":
			time.Sleep(10 * time.Second)
			if len(pending) > 0 {
				max := alert.OK
				for _, l := range pending {
					if l > max {
						max = l
					}
				}
				want = append(want, fmt.Sprintf("ag:%s<-%s n=%d", max, prevAg, len(pending)))
				prevAg = max
				pending = nil
			}
		}
		synctest.Wait()
	}
	synctest.Wait()
	var got []string
	for _, c := range cmd.Copy() {
		var ad alert.Data
		if err := json.Unmarshal(c.Stdin, &ad); err != nil {
			return &problem{"internal", "bad exec payload: " + err.Error()}
		}
		n := 0
		fmt.Sscanf(ad.Message, "Received %d events", &n)
		got = append(got, fmt.Sprintf("%s:%s<-%s n=%d", ad.ID, ad.Level, ad.PreviousLevel, n))
	}
	if strings.Join(got, " ") != strings.Join(want, " ") {
		return &problem{"aggregate-log", fmt.Sprintf("the handler on the aggregate's target topic saw %v, want %v (level = highest of the interval's events) after %v", got, want, hist)}
	}
	if ts, ok, _ := as.TopicState("t2"); len(want) > 0 && (!ok || ts.Level != prevAg) {
		return &problem{"aggregate-topic-level", fmt.Sprintf("target topic level %s (listed %v), want %s after %v", ts.Level, ok, prevAg, hist)}
	}
	for _, e := range env.Diag.ErrorsCopy() {
		return &problem{"service-error", fmt.Sprintf("diagnostic error %+v after %v", e, hist)}
	}
	return nil
}

func bubbleAgg(t *testing.T, hist []BOp) (p *problem) {
	defer func() {
		if r := recover(); r != nil {
			p = &problem{"panic", fmt.Sprintf("panic: %v after %v", r, hist)}
		}
	}()
	synctest.Test(t, func(t *testing.T) {
		p = runAgg(hist)
	})
	return
}
