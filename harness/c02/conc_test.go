package c02

import (
	"fmt"
	"os"
	"strings"
	"testing/synctest"
	"time"

	"github.com/influxdata/kapacitor"
	"github.com/influxdata/kapacitor/zz_verif/kit"
	"github.com/influxdata/kapacitor/zz_verif/vsched"
)

// Part (b): control operations on one task racing with writes, observed at another, undisturbed task.
type ConcScenario struct {
	Name    string
	Steady  string   // shape of the undisturbed, running task T0
	Other   string   // shape of the task the control goroutine operates on (T1)
	Running bool     // T1 is running at the beginning
	Ops     []string // control operations on T1 in order: start stop delete
	Writes  int
	// FailOther: T1 is a task that fails at run time (two httpOut nodes with one endpoint: the second cannot register
	// its route) and stays registered, as a failed task does until somebody stops it
	FailOther bool
	Warm      int // points written (and settled, default schedule) before the explored part: lets the failure climb to the input edge
}

const failScript = "var f0 = stream|from().measurement('m1')\nf0|log().prefix('T1.0')\nf0|httpOut('dup')\nf0|httpOut('dup')\n"

func concScenarios() []ConcScenario {
	return []ConcScenario{
		{Name: "stop-other", Steady: "m1", Other: "all", Running: true, Ops: []string{"stop"}, Writes: 3},
		{Name: "delete-other", Steady: "all", Other: "m1", Running: true, Ops: []string{"delete"}, Writes: 3},
		{Name: "start-other", Steady: "m1+all", Other: "m1", Running: false, Ops: []string{"start"}, Writes: 3},
		{Name: "stop-start-other", Steady: "m1", Other: "m1+m2", Running: true, Ops: []string{"stop", "start"}, Writes: 3},
		{Name: "start-delete-other", Steady: "all", Other: "all", Running: false, Ops: []string{"start", "delete"}, Writes: 3},
		// a neighbour that names the measurement and has failed: its input edge is aborted but still registered
		{Name: "failed-neighbour", Steady: "all", Other: "m1", Running: true, FailOther: true, Warm: 6, Writes: 3},
		{Name: "failed-neighbour-then-stop", Steady: "m1+all", Other: "m1", Running: true, FailOther: true, Warm: 6, Ops: []string{"stop"}, Writes: 3},
	}
}

func concHarness(sc ConcScenario) vsched.Harness {
	return vsched.Harness{
		Cfg: vsched.Sched{MaxSteps: 4000, Horizon: time.Hour},
		Setup: func() (func(), func(*vsched.Exec)) {
			kapacitor.VerifSetEdgeBufferSize(1)
			var env *kit.Env
			var setupErr error
			var ctlErrs []string
			acked := 0
			otherRunningAtWrite := map[int]string{} // seq -> "yes"/"no"/"changing"
			body := func() {
				vsched.NoBranch(true)
				env, setupErr = kit.NewEnv("c02")
				if setupErr != nil {
					return
				}
				env.TM.DefaultRetentionPolicy = "rp1"
				env.TM.HTTPDService = kit.NewStrictHTTPD()
				st, ot := shapes[sc.Steady], shapes[sc.Other]
				otherScript := ot.script("T1")
				if sc.FailOther {
					otherScript = failScript
				}
				if _, setupErr = env.Start("T0", st.script("T0"), kapacitor.StreamTask, st.dbrps()); setupErr != nil {
					return
				}
				if sc.Running {
					if _, setupErr = env.Start("T1", otherScript, kapacitor.StreamTask, ot.dbrps()); setupErr != nil {
						return
					}
				}
				vsched.Idle()
				for i := 1; i <= sc.Warm; i++ {
					p := kit.MkPoint("m1", nil, map[string]any{"k": int64(1), "seq": int64(i)}, kit.T0.Add(time.Duration(i)*time.Second))
					if err := env.Write("db1", "rp1", p); err == nil {
						acked++
					}
					vsched.Idle()
				}
				vsched.NoBranch(false)
				done := make(chan struct{}, 2)
				vsched.Go(func() { // writer
					for i := sc.Warm + 1; i <= sc.Warm+sc.Writes; i++ {
						p := kit.MkPoint("m1", nil, map[string]any{"k": int64(1), "seq": int64(i)}, kit.T0.Add(time.Duration(i)*time.Second))
						if err := env.Write("db1", "rp1", p); err == nil {
							acked++
						}
					}
					vsched.Point()
					done <- struct{}{}
				})
				vsched.Go(func() { // control
					for _, op := range sc.Ops {
						var err error
						switch op {
						case "start":
							_, err = env.Start("T1", otherScript, kapacitor.StreamTask, ot.dbrps())
						case "stop":
							err = env.TM.StopTask("T1")
						case "delete":
							err = env.TM.DeleteTask("T1")
						}
						if err != nil {
							ctlErrs = append(ctlErrs, op+": "+err.Error())
						}
					}
					vsched.Point()
					done <- struct{}{}
				})
				for i := 0; i < 2; i++ {
					vsched.Point()
					<-done
				}
				vsched.NoBranch(true)
				env.TM.Close()
				_ = otherRunningAtWrite
			}
			check := func(x *vsched.Exec) {
				synctest.Wait()
				if setupErr != nil {
					x.Key, x.Problem = "setup", setupErr.Error()
					return
				}
				if x.S.Verdict != "" {
					x.Key, x.Problem = "conc-"+x.S.Verdict, fmt.Sprintf("%s: schedule ended with %s\n%s", sc.Name, x.S.Verdict, trim(x.S.Detail, 2500))
					return
				}
				if len(ctlErrs) > 0 && !sc.FailOther {
					x.Key, x.Problem = "control-error", fmt.Sprintf("%s: %v", sc.Name, ctlErrs)
					return
				}
				// the undisturbed task: every from() that selects m1/k=1 on db1.rp1 sees 1..acked exactly once, in order
				st := shapes[sc.Steady]
				var outs []string
				for fi, f := range st.Froms {
					var got []int
					for _, pt := range env.Diag.Sink(fmt.Sprintf("T0.%d", fi)).Points() {
						got = append(got, int(pt.Fields["seq"].(int64)))
					}
					var want []int
					if matches(f, "db1", "rp1", "m1", 1) {
						for i := 1; i <= acked; i++ {
							want = append(want, i)
						}
					}
					outs = append(outs, fmt.Sprint(got))
					if fmt.Sprint(got) != fmt.Sprint(want) {
						x.Key, x.Problem = "undisturbed-task-affected", fmt.Sprintf("%s: from() #%d of the running task T0 (%s) received %v, want %v while T1 (%s) was %v", sc.Name, fi, sc.Steady, got, want, sc.Other, sc.Ops)
						return
					}
				}
				// the other task: no duplicates, increasing order, only writes 1..acked
				ot := shapes[sc.Other]
				for fi := range ot.Froms {
					var got []int
					for _, pt := range env.Diag.Sink(fmt.Sprintf("T1.%d", fi)).Points() {
						got = append(got, int(pt.Fields["seq"].(int64)))
					}
					outs = append(outs, fmt.Sprint(got))
					for i := range got {
						if got[i] < 1 || got[i] > acked || (i > 0 && got[i] <= got[i-1]) {
							x.Key, x.Problem = "other-task-order", fmt.Sprintf("%s: from() #%d of T1 received %v (duplicates / reordering)", sc.Name, fi, got)
							return
						}
					}
				}
				for _, e := range env.Diag.ErrorsCopy() {
					if sc.FailOther && e.Task == "T1" {
						continue // the failed task reports its failure
					}
					x.Key, x.Problem = "node-error", fmt.Sprintf("%s: %+v", sc.Name, e)
					return
				}
				x.Outcome = strings.Join(outs, " ")
				if os.Getenv("VERIF_DEBUG") != "" {
					fmt.Fprintf(os.Stderr, "DEBUG %s: outs=%v acked=%d errors=%+v\n", sc.Name, outs, acked, env.Diag.ErrorsCopy())
				}
			}
			return body, check
		},
	}
}

func trim(s string, n int) string {
	if len(s) > n {
		return s[:n] + "..."
	}
	return s
}
