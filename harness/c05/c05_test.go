package c05

import (
	"encoding/json"
	"fmt"
	"os"
	"regexp"
	"strings"
	"testing"
	"time"

	"github.com/influxdata/kapacitor"
	"github.com/influxdata/kapacitor/pipeline"
	"github.com/influxdata/kapacitor/tick"
	"github.com/influxdata/kapacitor/tick/ast"
	"github.com/influxdata/kapacitor/tick/stateful"
	"github.com/influxdata/kapacitor/zz_verif/kit"
	"github.com/influxdata/kapacitor/zz_verif/rep"
)

type problem struct{ key, msg string }

// Case is what a replay file holds.
type Case struct {
	Kind   string // text | define | json | vars | data | udf
	Text   string
	Entry  string
	Data   *DataCase `json:",omitempty"`
	UDF    *UDFCase  `json:",omitempty"`
	VarIdx int
}

// ---------------------------------------------------------------- guarded calls

// guard runs f in a bubble: a panic, goroutines left behind (the lexer runs in its own goroutine) and a body that
// never returns are all reported.
func guard(t *testing.T, f func()) (what, detail string) {
	leak, pan := kit.Bubble(t, f)
	if pan != nil {
		return "panic", fmt.Sprint(pan)
	}
	if strings.HasPrefix(leak, "hang:") {
		return "hang", leak
	}
	if leak != "" {
		return "goroutine-leak", leak
	}
	return "", ""
}

var panicSite = regexp.MustCompile(`(?m)^github\.com/influxdata/kapacitor[^\s(]*\.([A-Za-z0-9_.()*]+)\(`)

// site names the innermost repository function on a panic stack (for a stable key)
func site(detail string) string {
	for _, m := range panicSite.FindAllStringSubmatch(detail, -1) {
		if strings.Contains(m[0], "zz_verif") {
			continue
		}
		return m[1]
	}
	return "unknown"
}

// entry points for text
var textEntries = []struct {
	name string
	f    func(s string)
}{
	{"ast.Parse", func(s string) { ast.Parse(s) }},
	{"ast.ParseLambda", func(s string) {
		l, err := ast.ParseLambda(s)
		if err == nil && l != nil {
			// an accepted lambda must also compile or be rejected, and evaluate or fail, without panicking
			if e, err := stateful.NewExpression(l.Expression); err == nil {
				sc := stateful.NewScope()
				sc.Set("v", int64(0))
				sc.Set("a", "x")
				e.Eval(sc)
				e.EvalBool(sc)
			}
		}
	}},
	{"tick.Format", func(s string) { tick.Format(s) }},
}

func checkText(t *testing.T, r *rep.R, s string, entries []int) {
	for _, ei := range entries {
		e := textEntries[ei]
		r.Add("evaluations", 1)
		r.Add("text_calls", 1)
		r.Add("transitions", 1)
		if what, detail := guard(t, func() { e.f(s) }); what != "" {
			r.Violation(what+":"+e.name+":"+site(detail), fmt.Sprintf("%s(%q): %s: %s", e.name, s, what, rep.Short(detail)), Case{Kind: "text", Text: s, Entry: e.name})
		}
	}
}

// define: the full path a script takes when a task is defined
func define(t *testing.T, r *rep.R, script string, tt kapacitor.TaskType, vars map[string]tick.Var, kind string) {
	r.Add("evaluations", 1)
	r.Add("define_calls", 1)
	r.Add("transitions", 1)
	accepted := false
	what, detail := guard(t, func() {
		env, err := kit.NewEnv("c05")
		if err != nil {
			panic(err)
		}
		task, err := env.TM.NewTask("t", script, tt, kit.DBRP, 0, vars)
		if err == nil && task != nil {
			accepted = true
			task.Dot()
		}
		env.TM.Close()
	})
	if accepted {
		r.AddDistinct("nontrivial", 1)
	}
	if what != "" {
		r.Violation(what+":define:"+site(detail), fmt.Sprintf("NewTask(%q): %s: %s", script, what, rep.Short(detail)), Case{Kind: kind, Text: script, Entry: fmt.Sprint(int(tt))})
	}
}

// ---------------------------------------------------------------- inputs

var chars = []string{"a", "1", ".", "|", "(", ")", "'", "\"", "/", "\\", "\n", " ", "-", "=", ":", "é", "@", ",", "*", "!", "<",
	"٣", "\u00a0", "\xff", "\x00"} // a non-ASCII digit, a non-ASCII space, an invalid UTF-8 byte, NUL

var tokens = []string{"stream", "batch", "|from()", "|where(", "|eval(", "lambda:", " \"v\"", " 's'", " '''t'''", " /r/", " 1", " 1.5", " 1s", " TRUE", " >", " +", " -", " !", " AND", "(", ")", ",", ".as(", "var x =", " x", "\n", "// c\n", "@u(", " *", "|", ".", " =~", "|log()", ".groupBy(", "|window()", ".period("}

var realScripts = []string{
	"stream\n    |from()\n        .measurement('cpu')\n        .where(lambda: \"host\" == 'a' AND \"v\" > 1.5)\n        .groupBy('host', 'dc')\n    |window()\n        .period(10s)\n        .every(5s)\n    |mean('v')\n        .as('m')\n    |alert()\n        .id('{{ .Name }}/{{ index .Tags \"host\" }}')\n        .crit(lambda: \"m\" > 90)\n        .log('/tmp/a.log')\n",
	"var w = 5m\nvar data = stream|from().measurement('m')\nvar a = data|where(lambda: \"v\" =~ /^a.*$/)|eval(lambda: sigma(\"v\"), lambda: \"x\" * 2.0).as('x', 'y').keep('y')\nvar b = data|derivative('v').unit(1s).nonNegative()\na|join(b).as('a','b').tolerance(1s).fill(0.0)|httpOut('j')\n",
	"batch\n    |query('''SELECT mean(\"v\") FROM \"db\".\"rp\".\"m\" WHERE \"h\" = 'x' ''')\n        .period(1m)\n        .every(20s)\n        .groupBy(time(10s), *)\n        .fill(0)\n    |stateCount(lambda: \"mean\" > -1000.0)\n    |influxDBOut()\n        .database('out')\n        .tag('k', 'v')\n",
	"dbrp \"telegraf\".\"autogen\"\nvar t = TRUE\nstream|from().measurement('m')|default().field('f', 1).tag('t', 'x')|delete().field('g')|flatten().on('a','b')|combine(lambda: TRUE, lambda: !FALSE).as('l','r')|sample(3)|shift(-1h)|log().level('DEBUG')\n",
}

// single-edit neighbourhood of a script: every deletion, every substitution from a small set, every adjacent
// transposition, every prefix
func neighbourhood(s string) []string {
	rs := []rune(s)
	subs := []rune{'\'', '"', '(', ')', '|', '.', '/', '\\', 'é', '\n', '0', '@'}
	out := []string{s}
	for i := range rs {
		out = append(out, string(rs[:i])) // prefix
		del := append(append([]rune(nil), rs[:i]...), rs[i+1:]...)
		out = append(out, string(del))
		for _, c := range subs {
			if rs[i] == c {
				continue
			}
			sub := append([]rune(nil), rs...)
			sub[i] = c
			out = append(out, string(sub))
		}
		if i+1 < len(rs) {
			tr := append([]rune(nil), rs...)
			tr[i], tr[i+1] = tr[i+1], tr[i]
			out = append(out, string(tr))
		}
	}
	return out
}

func enumStrings(alpha []string, maxLen int, f func(s string) bool) {
	var rec func(prefix string, l int) bool
	rec = func(prefix string, l int) bool {
		if !f(prefix) {
			return false
		}
		if l == maxLen {
			return true
		}
		for _, a := range alpha {
			if !rec(prefix+a, l+1) {
				return false
			}
		}
		return true
	}
	rec("", 0)
}

// ---------------------------------------------------------------- vars

var varScript = "var w string\nvar n = 5\nvar d = 1s\nvar l = lambda: \"v\" > 1\nvar li = ['a']\nstream|from().measurement(w)|where(l)|window().period(d).everyCount(n)|groupBy(li)\n"

func varValues() []tick.Var {
	var vs []tick.Var
	vals := []interface{}{nil, "s", int64(1), 1.5, true, time.Second, regexp.MustCompile("a"), []tick.Var{{Type: ast.TString, Value: "x"}}, []tick.Var{{Type: ast.TInt, Value: "notint"}}, &ast.LambdaNode{}, &ast.LambdaNode{Expression: &ast.BoolNode{Bool: true}}, &ast.StarNode{}, map[string]int{}}
	types := []ast.ValueType{ast.InvalidType, ast.TFloat, ast.TInt, ast.TString, ast.TBool, ast.TRegex, ast.TTime, ast.TDuration, ast.TLambda, ast.TList, ast.TStar, ast.ValueType(99)}
	for _, ty := range types {
		for _, v := range vals {
			vs = append(vs, tick.Var{Type: ty, Value: v})
		}
	}
	return vs
}

// ---------------------------------------------------------------- JSON pipelines

func jsonMutations(base string) []string {
	var doc interface{}
	if err := json.Unmarshal([]byte(base), &doc); err != nil {
		panic(err)
	}
	repls := []interface{}{nil, float64(0), float64(-1), float64(1e18), "x", "", []interface{}{}, map[string]interface{}{}, map[string]interface{}{"typeOf": "bogus"}, map[string]interface{}{"typeOf": "lambda"}, map[string]interface{}{"typeOf": "binary", "operator": "??"}, true}
	var out []string
	// walk: every position gets every replacement, every object key gets deleted
	var walk func(node interface{}, set func(v interface{}))
	emit := func() {
		b, _ := json.Marshal(doc)
		out = append(out, string(b))
	}
	walk = func(node interface{}, set func(v interface{})) {
		for _, rv := range repls {
			set(rv)
			emit()
		}
		set(node)
		switch x := node.(type) {
		case map[string]interface{}:
			for k, v := range x {
				k, v := k, v
				delete(x, k)
				emit()
				x[k] = v
				walk(v, func(nv interface{}) { x[k] = nv })
			}
		case []interface{}:
			for i, v := range x {
				i, v := i, v
				walk(v, func(nv interface{}) { x[i] = nv })
			}
			if len(x) > 0 {
				// duplicate first element
			}
		}
	}
	walk(doc, func(v interface{}) { doc = v })
	return out
}

func baseJSONs(t *testing.T) []string {
	var out []string
	for i, s := range realScripts {
		tt := kapacitor.StreamTask
		if strings.HasPrefix(s, "batch") {
			tt = kapacitor.BatchTask
		}
		var js string
		kit.Bubble(t, func() {
			env, err := kit.NewEnv("c05")
			if err != nil {
				panic(err)
			}
			et := pipeline.StreamEdge
			if tt == kapacitor.BatchTask {
				et = pipeline.BatchEdge
			}
			var why error
			p, err := pipeline.CreatePipeline(s, et, env.TM.CreateTICKScope(), kit.Deadman{}, nil)
			why = err
			if err == nil {
				b, err := json.Marshal(p)
				why = err
				if err == nil {
					js = string(b)
				}
			}
			env.TM.Close()
			if js == "" {
				js = "ERR " + fmt.Sprint(why)
			}
		})
		if strings.HasPrefix(js, "ERR ") || js == "" {
			panic(fmt.Sprintf("real script %d does not marshal: %s", i, js))
		}
		out = append(out, js)
	}
	return out
}

func checkJSON(t *testing.T, r *rep.R, doc string) {
	r.Add("evaluations", 1)
	r.Add("json_calls", 1)
	r.Add("transitions", 1)
	ok := false
	what, detail := guard(t, func() {
		p := &pipeline.Pipeline{}
		if err := p.Unmarshal([]byte(doc)); err == nil {
			ok = true
			p.Dot("x")
			json.Marshal(p)
		}
	})
	if ok {
		r.AddDistinct("nontrivial", 1)
	}
	if what != "" {
		r.Violation(what+":json:"+site(detail), fmt.Sprintf("Pipeline.Unmarshal(%s): %s: %s", rep.Short(doc), what, rep.Short(detail)), Case{Kind: "json", Text: doc})
	}
}

// ---------------------------------------------------------------- main

func TestCheck(t *testing.T) {
	defer kit.CleanupTmp()
	r := rep.New("C05", "model_checking",
		"no input crashes, hangs or leaks. (text) EVERY string of up to 4 (thorough 5) symbols over a 25-character alphabet (quotes, slash, backslash, newline, a 2-byte letter, a non-ASCII digit and space, an invalid UTF-8 byte, NUL, operators ...) and every sequence of up to 3 (thorough 4) TICKscript tokens out of 36, through ast.Parse, ast.ParseLambda (+ compile and evaluate what is accepted) and tick.Format; (define) the complete single-edit neighbourhood (every deletion, 12 substitutions per position, every transposition, every prefix) of 4 real scripts covering 25 node types, and every token sequence that parses, through TaskMaster.NewTask; (vars) every (type, value) pair out of 12 x 13 for every variable of a template script; (json) every single-position mutation (12 replacement values per position, every key deleted) of the JSON form of the real scripts through Pipeline.Unmarshal; each call inside a virtual-time bubble: a panic, a body that does not return and any goroutine left behind are violations. (data) every combination of field values {missing, 0, -1, min/max int, 1.5, '', 'x', true, 1s-duration} for the fields an expression reads, through every expression-bearing node of a real running task followed by a good point that must still come out. (node runner) a node whose run function panics reports an error instead of taking the process down. (udf) every sequence of up to 3 misbehaving responses from a UDF peer (unsolicited, out of order, negative sizes, empty, truncated or oversized frames, garbage): the process survives, a second task keeps working, the affected task can be stopped. states = inputs, transitions = calls")
	defer r.Write()
	r.Assumption("a panic in a goroutine other than the caller's kills the worker process; the driver reports that as a process-crash violation with the input in flight as replay")
	r.Assumption("a misbehaving UDF peer may fail its own task (the node reports the error); what must hold is that the process, other tasks and the control operations on the failed task are unaffected")

	if rep.ReplayPath() != "" {
		var c Case
		if err := rep.LoadReplay(&c); err != nil {
			t.Fatal(err)
		}
		replay(t, r, c)
		return
	}
	n := 0
	mine := func() bool { n++; return rep.Mine(n) }
	expired := func() bool {
		if r.Expired() {
			r.Cap("deadline")
			return true
		}
		return false
	}
	// (text) characters
	cl, tl := 4, 3
	if rep.Thorough() {
		cl, tl = 5, 4
	}
	enumStrings(chars, cl, func(s string) bool {
		if !mine() {
			return true
		}
		if n%4096 == 0 && expired() {
			return false
		}
		rep.Current(Case{Kind: "text", Text: s})
		r.Add("states", 1)
		checkText(t, r, s, []int{0, 1, 2})
		return true
	})
	// (text+define) tokens
	enumStrings(tokens, tl, func(s string) bool {
		if !mine() {
			return true
		}
		if n%4096 == 0 && expired() {
			return false
		}
		rep.Current(Case{Kind: "text", Text: s})
		r.Add("states", 1)
		checkText(t, r, s, []int{0, 1, 2})
		if _, err := ast.Parse(s); err == nil {
			rep.Current(Case{Kind: "define", Text: s, Entry: "0"})
			define(t, r, s, kapacitor.StreamTask, nil, "define")
			define(t, r, s, kapacitor.BatchTask, nil, "define")
		}
		return true
	})
	// (define) neighbourhoods of real scripts
	for _, rs := range realScripts {
		tt := kapacitor.StreamTask
		if strings.HasPrefix(rs, "batch") {
			tt = kapacitor.BatchTask
		}
		for _, s := range neighbourhood(rs) {
			if !mine() {
				continue
			}
			if expired() {
				break
			}
			rep.Current(Case{Kind: "define", Text: s, Entry: fmt.Sprint(int(tt))})
			r.Add("states", 1)
			checkText(t, r, s, []int{0, 2})
			define(t, r, s, tt, nil, "define")
		}
	}
	// (vars)
	vv := varValues()
	for _, name := range []string{"w", "n", "d", "l", "li", "undeclared"} {
		for vi, v := range vv {
			if !mine() {
				continue
			}
			rep.Current(Case{Kind: "vars", Text: name, VarIdx: vi})
			r.Add("states", 1)
			define(t, r, varScript, kapacitor.StreamTask, map[string]tick.Var{name: v}, "vars")
		}
	}
	// (json)
	for _, base := range baseJSONs(t) {
		for _, doc := range jsonMutations(base) {
			if !mine() {
				continue
			}
			if expired() {
				break
			}
			rep.Current(Case{Kind: "json", Text: doc})
			r.Add("states", 1)
			checkJSON(t, r, doc)
		}
	}
	// the node runner turns a panic of a node's run function into a task error
	if i, _ := rep.Shard(); i == 0 {
		rep.Current(Case{Kind: "node-runner"})
		for _, p := range nodeRunner(t, r) {
			r.Violation(p.key, p.msg, Case{Kind: "node-runner"})
		}
	}
	dataPart(t, r, mine, expired)
	udfPart(t, r, mine, expired)
	_ = os.Getenv
}

func nodeRunner(t *testing.T, r *rep.R) []problem {
	var got error
	what, detail := guard(t, func() {
		env, err := kit.NewEnv("c05")
		if err != nil {
			panic(err)
		}
		p, err := pipeline.CreatePipeline("stream|from()", pipeline.StreamEdge, env.TM.CreateTICKScope(), kit.Deadman{}, nil)
		if err != nil {
			panic(err)
		}
		var first pipeline.Node
		p.Walk(func(n pipeline.Node) error {
			if first == nil {
				first = n
			}
			return nil
		})
		got = kapacitor.VerifNodeRecovers(env.Diag.WithNodeContext("n"), first)
		env.TM.Close()
	})
	r.Add("evaluations", 1)
	r.Add("transitions", 1)
	if what != "" {
		return []problem{{what + ":node-runner", "a node whose run function panics: " + rep.Short(detail)}}
	}
	if got == nil || !strings.Contains(got.Error(), "nil map") {
		return []problem{{"node-panic-not-reported", fmt.Sprintf("a node whose run function panics (assignment to entry in nil map) reported %v on its error channel", got)}}
	}
	return nil
}

func replay(t *testing.T, r *rep.R, c Case) {
	switch c.Kind {
	case "node-runner":
		for _, p := range nodeRunner(t, r) {
			r.Violation(p.key, p.msg, c)
		}
	case "text":
		checkText(t, r, c.Text, []int{0, 1, 2})
	case "define":
		tt := kapacitor.StreamTask
		if c.Entry == fmt.Sprint(int(kapacitor.BatchTask)) {
			tt = kapacitor.BatchTask
		}
		checkText(t, r, c.Text, []int{0, 2})
		define(t, r, c.Text, tt, nil, "define")
		if tt == kapacitor.StreamTask {
			define(t, r, c.Text, kapacitor.BatchTask, nil, "define")
		}
	case "vars":
		define(t, r, varScript, kapacitor.StreamTask, map[string]tick.Var{c.Text: varValues()[c.VarIdx]}, "vars")
	case "json":
		checkJSON(t, r, c.Text)
	case "data":
		for _, p := range runData(t, *c.Data, r) {
			r.Violation(p.key, p.msg, c)
		}
	case "udf":
		for _, p := range runUDF(t, *c.UDF, r) {
			r.Violation(p.key, p.msg, c)
		}
	}
}
