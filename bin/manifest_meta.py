ENGINES = [
    {"name": "build", "path": "/verif/bin/check", "serves_properties": [],
     "kind_free_text": "build layer: libflux stand-in + -modfile + -overlay (virtual harness packages), shard runner, evidence merger, known-findings filter, replay confirmation"},
    {"name": "bubble", "path": "/verif/harness/kit", "serves_properties": ["C01", "C03"],
     "kind_free_text": "real TaskMaster pipelines executed deterministically in testing/synctest bubbles (virtual time, quiescence detection); |log() nodes as in-process sinks"},
]
NOTES = "All checks rebuild from /repo's current working tree. Exit 2 = internal error of the machinery (never a verdict)."
NOT_APPLICABLE = {}
META = {
    "C12": {
        "engine": "bubble + exhaustive merge orders + explicit-state search",
        "design_ref": "DESIGN.md section 3 C12",
        "technique": "exhaustive enumeration of all merge orders of all per-parent time sequences up to a bound through the real join/union nodes (arrival order controlled by feeding one point at a time to quiescence), differential oracle across merge orders + pairing reference model; explicit-state BFS to closure over the real CircularQueue",
        "level_text": "For every configuration (tolerance, fill, on-dimension, 2 or 3 parents) and every tuple of per-parent sequences up to 3 points, every merge order is executed on a real task; the multiset of joined points must be the same for every merge order and equal the k-th-occurrence reference, union must emit each message once in parent order and non-decreasing time, everything buffered must be flushed at task end. The CircularQueue used by both nodes is searched to closure (head, tail, Len, cap as key) against a slice.",
        "level_note": "Trusted: Go runtime/synctest, |log() sinks. Goroutine-level interleavings inside edge.multiConsumer (reader goroutines, EOF order, an error from one parent) are not yet explored with the controlled scheduler; batch joins are not enumerated.",
    },
    "C02": {
        "engine": "explicit-state search over event histories + controlled scheduler (vsched)",
        "design_ref": "DESIGN.md section 3 C02",
        "technique": "exhaustive enumeration of control/write event histories up to a depth on a real TaskMaster against a reference router + deviation-bounded exploration of control operations racing with writes under a controlled scheduler",
        "level_text": "Part (a): every applicable history of start/stop/delete/write events up to the depth over 4 universes of 3 tasks (10 task shapes) is executed on a real TaskMaster, every from() sink is compared with a reference router after every event. Part (b): 5 scenarios in which a control goroutine starts/stops/deletes one task while a writer writes 3 points; every schedule up to the deviation bound; the undisturbed task must see exactly the acknowledged writes in order, the other task no duplicates or reordering.",
        "level_note": "Trusted: Go runtime/synctest, |log() sinks, instrumenter. The HTTP write path (serveWriteLine) is not driven; C20 drives it for authorisation only.",
    },
    "C17": {
        "engine": "controlled scheduler (vsched)",
        "design_ref": "DESIGN.md section 3 C17, section 2.3",
        "technique": "stateless deviation-bounded exploration of all interleavings of Schedule/re-Schedule/Release actors, the scheduler main loop, workers and timer firings of the real TreeScheduler (AST-instrumented package) in virtual time; per-schedule oracle on the executor/checkpointer records",
        "level_text": "8 scenarios (1-2 workers, control operations on and off tick boundaries, executor error, executor panic, an execution spanning several occurrences); every schedule deviating at most d times from the default is executed on the real code (d=1 quick, d=2 thorough). Oracle: executed occurrences consecutive after last-scheduled, each once, increasing, never before occurrence+offset, never concurrent per task, none due after Release returned, checkpoints monotone, all calls return, no deadlock/livelock verdict (the main loop's retry-while-worker-busy spin is recognised by spin detection).",
        "level_note": "Trusted: Go runtime/synctest, instrumenter. The benbjohnson mock clock used by upstream tests is replaced by the real clock in virtual time. Clock jumps chosen by the scheduler while goroutines are runnable are NOT explored: that mode hangs the Go 1.25.7 runtime inside bubbles (timer.modify deadlock), a slow execution spanning occurrences is used instead. The coordinator (task/backend/coordinator) is not driven.",
    },
    "C07": {
        "engine": "controlled scheduler (vsched)",
        "design_ref": "DESIGN.md section 3 C07, section 2.3",
        "technique": "stateless deviation-bounded exploration of all goroutine interleavings and select choices of real pipelines (AST-instrumented kapacitor and edge packages, edge buffers of size 1) under a controlled scheduler; per-schedule oracle on acknowledged-vs-delivered points, termination, deadlock and goroutine leaks",
        "level_text": "12 scenarios (4 pipelines with influxDBOut / log / window outputs x StopTask, DeleteTask, TaskMaster.Close) with a producer and a stopper goroutine; every schedule that deviates at most d times from the default schedule is executed on the real code (d=1 quick, d=2 thorough) and checked: every point acknowledged before the stop began reaches the output once and in order, stop returns, no deadlock verdict, no goroutine left in the bubble.",
        "level_note": "Trusted: Go runtime/synctest, instrumenter (conformance run of upstream unit tests on rewritten packages). Alert handler outputs, loopback, httpPost and a node failing mid-pipeline are not yet among the scenarios. Plain-memory races are outside the explored space; schedules beyond the deviation bound are not covered.",
    },
    "C09": {
        "engine": "explicit-state search + controlled scheduler (vsched)",
        "design_ref": "DESIGN.md section 3 C09, section 2.3",
        "technique": "explicit-state BFS to closure over event histories on the real alert.Topics (map reference model) + stateless deviation-bounded exploration of all interleavings of concurrent publishers on the instrumented package under a controlled scheduler",
        "level_text": "Part A closes the state space of one topic (3 ids x 4 levels, stored order included) and checks every query and the handler log after every transition. Part C runs 2-3 real publisher goroutines over the AST-instrumented alert package: every gate (lock, channel operation, select) is a scheduling point, all schedules up to the deviation bound are executed and checked (exactly-once delivery, previous-level chain in handler order, final state, topic level).",
        "level_note": "Trusted: Go runtime/synctest, the instrumenter (conformance: upstream unit tests pass on the rewritten packages in pass-through mode). Match expressions, publish/aggregate handlers of services/alert are not yet enumerated here. Plain-memory races are outside the explored space.",
    },
    "C18": {
        "engine": "bounded exhaustive enumeration + identity oracle",
        "design_ref": "DESIGN.md section 3 C18",
        "technique": "bounded exhaustive enumeration of recorded points/batches over typed boundary value and special-character alphabets, write->replay identity oracle in both clock modes inside synctest bubbles (goroutine-leak oracle); worker crashes through repository frames are reported as violations",
        "level_text": "Every case is written with the real recording writers and replayed through the real Replay*FromIO functions (reader and replayer goroutines, fast clock) in a bubble; identity on db, rp, name, tags, fields incl. Go types, group, order and time (identical or one constant shift, batch end time included).",
        "level_note": "Trusted: influxdb/models line protocol encoder/parser (its own limitations on backslashes/newlines in keys are excluded from the alphabet), encoding/json. The replay service's file handling and the task hookup are not covered.",
    },
    "C13": {
        "engine": "bounded exhaustive enumeration + round-trip oracle",
        "design_ref": "DESIGN.md section 3 C13",
        "technique": "bounded exhaustive enumeration of grammar-generated task scripts and lambda ASTs (all operator pairs x nestings x parenthesisation, all literal forms, comments at every token boundary) with differential round-trip oracles on a reflection-based semantic description of the pipeline",
        "level_text": "Every generated script that defines a task goes through four independent round-trip stages (Format, pipeline->TICKscript, pipeline JSON, JSON->TICKscript); the pipelines are compared through a reflection dump of all node properties and lambda trees (not through the lossy JSON). Lambdas: JSON round trip Equal and format-stable.",
        "level_note": "Exploration of programs: the generator covers the node kinds and literal forms listed in the evidence rule, not every chain method of every node. The pipeline->TICKscript and pipeline JSON reading paths have many recorded known findings (unused by the daemon itself), which mask regressions on the same inputs.",
    },
    "C15": {
        "engine": "explicit-state search + fault enumeration",
        "design_ref": "DESIGN.md section 3 C15",
        "technique": "explicit-state BFS to closure over operation histories of the real IndexedStore on a real Bolt file (state = history, successor = replay + 1 op), map reference model, exhaustive fault placement at every underlying Put/Delete, reopen after every transition",
        "level_text": "The search closes (125 states, all 40 operations from each). Every transition is executed on a fresh real Bolt file and checked against a map model: result code, raw dump (data/index bijection), Get, every List/ReverseList query, reopen; every write inside every transition is failed once and the operation must fail leaving no trace.",
        "level_note": "Trusted: bbolt (commit atomicity, durability). Universe: 3 ids (one a prefix of another), 2 secondary index values, 2 payloads.",
    },
    "C20": {
        "engine": "bounded exhaustive enumeration + reference decision",
        "design_ref": "DESIGN.md section 3 C20",
        "technique": "bounded exhaustive enumeration of privilege tables x request paths x methods x users against a reference nearest-grant decision, at the auth.User layer and through httpd.Handler.ServeHTTP with marker routes",
        "level_text": "All privilege tables up to the grant bound over a small resource universe are checked against every request resource (path tricks included) and privilege, both directly and through the real HTTP handler chain (mux cleaning, preview rewrite, authenticate, authorize, /write database check) with marker routes that reveal which handler ran on which path; DatabaseResource injectivity over a name alphabet.",
        "level_note": "Trusted: net/http/httptest, the fake auth service. JWT and subscription tokens are not enumerated. Grants mixing 'all' with other privileges are only checked in the 'only if' direction.",
    },
    "C04": {
        "engine": "bounded exhaustive enumeration + reference interpreter",
        "design_ref": "DESIGN.md section 3 C04",
        "technique": "bounded exhaustive enumeration of lambda ASTs x scope histories (type-changing, two groups sharing the compiled tree) against an independent cache-free AST interpreter",
        "level_text": "Every binary operator over every pair of typed leaves, depth-2 nestings and built-in functions with every argument-type vector is compiled once and evaluated over every scope history up to the bound (boundary values per type, type changes between points, two groups via CopyReset) through three entry modes; value, type and error-ness are compared with an independent interpreter; any panic is a violation.",
        "level_note": "Trusted: the lambda parser (C13 covers it), Go's math/strings/regexp used by both sides. Outcomes the language does not define (out-of-range float conversions, undocumented signatures) are skipped and counted in the evidence.",
    },
    "C01": {
        "engine": "bubble + explicit-state search",
        "design_ref": "DESIGN.md section 3 C01",
        "technique": "explicit-state model checking: BFS over the reference alert state machine to closure, every (state, input) transition replayed on the real alert node + exhaustive fixed-length input sequences; reference state machine as oracle",
        "level_text": "For every alert() configuration the reference state machine is searched breadth-first to closure; for every reachable (state, input) transition the shortest input path plus that input is executed on a real task (real alert node, alert service, topic, handler) and every step is compared (event presence, level, time, duration, previous level, forwarded fields). In addition all input sequences up to a length bound are run. The evidence reports uncovered model transitions (must be 0).",
        "level_note": "Trusted: Go runtime/synctest, harness handler and |log() sink, independence of alert IDs (C06). The abstract state drops absolute times (translation invariance). Flapping is only partially specified, see assumptions in the evidence. stateChangesOnly interval boundary (exactly equal) not enumerated.",
    },
    "C03": {
        "engine": "bubble + explicit-state search",
        "design_ref": "DESIGN.md section 3 C03",
        "technique": "bounded exhaustive enumeration of timestamp sequences through the real window node + explicit-state BFS to closure over the real ring buffer, against a slice reference model",
        "level_text": "Every window configuration x every non-decreasing timestamp sequence up to the length bound over a gap alphabet is pushed through a real stream task and every emitted window is compared with a []point reference; the ring buffer itself is searched breadth-first to closure (all insert/purge histories up to a live-size bound) with the real indices as state key.",
        "level_note": "Trusted: Go runtime/synctest, the harness's |log() sink, group independence (C06). Timestamps outside the gap alphabet and sequences longer than the bound are not covered; ring BFS is bounded by live size.",
    },
}
