package c02

import (
	"fmt"
	"os"
	"strings"
	"testing"
	"time"

	"github.com/influxdata/kapacitor"
	"github.com/influxdata/kapacitor/zz_verif/kit"
	"github.com/influxdata/kapacitor/zz_verif/rep"
	"github.com/influxdata/kapacitor/zz_verif/vsched"
)

// ---------------------------------------------------------------- task shapes

type fromSpec struct {
	DB, RP, M string
	K         int // -1: no where; else where "k" == K
	// Chain: two where() calls on the from() node, "k" >= 1 and then "k" <= 1: both apply (k == 1)
	Chain bool
}

type shape struct {
	Name  string
	Froms []fromSpec
	DBRPs [][2]string
}

func (s shape) script(task string) string {
	var sb strings.Builder
	for i, f := range s.Froms {
		fmt.Fprintf(&sb, "var f%d = stream|from()", i)
		if f.DB != "" {
			fmt.Fprintf(&sb, ".database('%s')", f.DB)
		}
		if f.RP != "" {
			fmt.Fprintf(&sb, ".retentionPolicy('%s')", f.RP)
		}
		if f.M != "" {
			fmt.Fprintf(&sb, ".measurement('%s')", f.M)
		}
		if f.K >= 0 {
			fmt.Fprintf(&sb, ".where(lambda: \"k\" == %d)", f.K)
		}
		if f.Chain {
			sb.WriteString(".where(lambda: \"k\" >= 1).where(lambda: \"k\" <= 1)")
		}
		fmt.Fprintf(&sb, "\nf%d|log().prefix('%s.%d')\n", i, task, i)
	}
	return sb.String()
}

func (s shape) dbrps() []kapacitor.DBRP {
	var r []kapacitor.DBRP
	for _, d := range s.DBRPs {
		r = append(r, kapacitor.DBRP{Database: d[0], RetentionPolicy: d[1]})
	}
	return r
}

var d1 = [][2]string{{"db1", "rp1"}}
var d2 = [][2]string{{"db2", "rp1"}}
var d12 = [][2]string{{"db1", "rp1"}, {"db2", "rp1"}}

var shapes = map[string]shape{
	"m1":          {"m1", []fromSpec{{M: "m1", K: -1}}, d1},
	"all":         {"all", []fromSpec{{K: -1}}, d1},
	"m1+m2":       {"m1+m2", []fromSpec{{M: "m1", K: -1}, {M: "m2", K: -1}}, d1},
	"m1+all":      {"m1+all", []fromSpec{{M: "m1", K: -1}, {K: -1}}, d1},
	"db2.m1":      {"db2.m1", []fromSpec{{DB: "db2", M: "m1", K: -1}}, d12},
	"m1.k1@db2":   {"m1.k1@db2", []fromSpec{{M: "m1", K: 1}}, d2},
	"rp1":         {"rp1", []fromSpec{{RP: "rp1", K: -1}}, d12},
	"m2@both":     {"m2@both", []fromSpec{{M: "m2", K: -1}}, d12},
	"m1+m1":       {"m1+m1", []fromSpec{{M: "m1", K: -1}, {M: "m1", K: 0}}, d1},
	"all+all@db2": {"all+all@db2", []fromSpec{{K: -1}, {K: 1}}, d2},
	"m1.chain":    {"m1.chain", []fromSpec{{M: "m1", K: -1, Chain: true}, {K: -1}}, d12},
}

var universes = [][3]string{
	{"m1+all", "m1", "m1.k1@db2"},
	{"m1+m2", "all", "db2.m1"},
	{"rp1", "m2@both", "m1+m1"},
	{"all+all@db2", "m1+all", "all"},
	// a task that names one fork key twice next to exactly one other subscriber of that key
	{"m1+m1", "m1", "all"},
	{"all+all@db2", "rp1", "db2.m1"},
	// chained where() calls; a task declaring two db/rps next to tasks declaring one each
	{"m1.chain", "m1", "m1.k1@db2"},
}

// ---------------------------------------------------------------- events

type Event struct {
	Kind   string // start stop delete write
	Task   int
	DB, RP string
	M      string
	K      int
}

func (e Event) String() string {
	if e.Kind == "write" {
		return fmt.Sprintf("write(%s.%s %s k=%d)", e.DB, e.RP, e.M, e.K)
	}
	return fmt.Sprintf("%s(T%d)", e.Kind, e.Task)
}

func alphabet() []Event {
	var r []Event
	for t := 0; t < 3; t++ {
		for _, k := range []string{"start", "stop", "delete"} {
			r = append(r, Event{Kind: k, Task: t})
		}
	}
	for _, db := range []string{"db1", "db2"} {
		for _, m := range []string{"m1", "m2"} {
			for k := 0; k < 2; k++ {
				r = append(r, Event{Kind: "write", DB: db, RP: "rp1", M: m, K: k})
			}
		}
	}
	r = append(r, Event{Kind: "write", DB: "db1", RP: "rp2", M: "m1", K: 1}, Event{Kind: "write", DB: "db1", RP: "", M: "m1", K: 1})
	// points on which a where() lambda cannot be evaluated (k is a string / k is missing): selected by unfiltered from() only
	r = append(r, Event{Kind: "write", DB: "db1", RP: "rp1", M: "m1", K: -2}, Event{Kind: "write", DB: "db2", RP: "rp1", M: "m1", K: -3})
	return r
}

type Case struct {
	Universe [3]string
	Hist     []Event
}

type problem struct{ kind, msg string }

func matches(f fromSpec, db, rp, m string, k int) bool {
	if f.DB != "" && f.DB != db {
		return false
	}
	if f.RP != "" && f.RP != rp {
		return false
	}
	if f.M != "" && f.M != m {
		return false
	}
	if f.K >= 0 && f.K != k {
		return false
	}
	if f.Chain && k != 1 {
		return false
	}
	return true
}

// applicable: start only when not running, stop/delete only when running (the task store guarantees this)
func applicable(running [3]bool, e Event) bool {
	switch e.Kind {
	case "start":
		return !running[e.Task]
	case "stop", "delete":
		return running[e.Task]
	}
	return true
}

func run(t *testing.T, c Case) (p *problem, interesting bool) {
	leak, pan := kit.Bubble(t, func() {
		env, err := kit.NewEnv("c02")
		if err != nil {
			p = &problem{"internal", err.Error()}
			return
		}
		env.TM.DefaultRetentionPolicy = "rp1"
		var running [3]bool
		want := map[string][]int{} // sink -> sequence numbers of writes
		seq := 0
		for i, e := range c.Hist {
			if !applicable(running, e) {
				p = &problem{"internal", "inapplicable event in history"}
				return
			}
			sh := shapes[c.Universe[e.Task]]
			tname := fmt.Sprintf("T%d", e.Task)
			switch e.Kind {
			case "start":
				if _, err := env.Start(tname, sh.script(tname), kapacitor.StreamTask, sh.dbrps()); err != nil {
					p = &problem{"start-error", fmt.Sprintf("start %s (%s): %v", tname, sh.Name, err)}
					return
				}
				running[e.Task] = true
			case "stop":
				if err := env.TM.StopTask(tname); err != nil {
					p = &problem{"stop-error", err.Error()}
					return
				}
				running[e.Task] = false
			case "delete":
				if err := env.TM.DeleteTask(tname); err != nil {
					p = &problem{"stop-error", err.Error()}
					return
				}
				running[e.Task] = false
			case "write":
				seq++
				fields := map[string]any{"k": int64(e.K), "seq": int64(seq)}
				switch e.K {
				case -2: // wrong type: the where() lambda fails to evaluate
					fields["k"] = "1"
				case -3: // field missing: the where() lambda fails to evaluate
					delete(fields, "k")
				}
				pt := kit.MkPoint(e.M, nil, fields, kit.T0.Add(time.Duration(seq)*time.Second))
				if err := env.Write(e.DB, e.RP, pt); err != nil {
					p = &problem{"write-error", err.Error()}
					return
				}
				rp := e.RP
				if rp == "" {
					rp = "rp1" // the default retention policy
				}
				for ti := 0; ti < 3; ti++ {
					if !running[ti] {
						continue
					}
					s := shapes[c.Universe[ti]]
					declared := false
					for _, d := range s.DBRPs {
						if d[0] == e.DB && d[1] == rp {
							declared = true
						}
					}
					if !declared {
						continue
					}
					for fi, f := range s.Froms {
						if matches(f, e.DB, rp, e.M, e.K) {
							k := fmt.Sprintf("T%d.%d", ti, fi)
							want[k] = append(want[k], seq)
							interesting = true
						}
					}
				}
			}
			kit.Wait()
			// compare every sink after every event
			for ti := 0; ti < 3; ti++ {
				for fi := range shapes[c.Universe[ti]].Froms {
					k := fmt.Sprintf("T%d.%d", ti, fi)
					var got []int
					for _, pt := range env.Diag.Sink(k).Points() {
						got = append(got, int(pt.Fields["seq"].(int64)))
					}
					if fmt.Sprint(got) != fmt.Sprint(want[k]) {
						kind := "routing"
						switch {
						case len(got) > len(want[k]) && hasDup(got):
							kind = "duplicate-delivery"
						case len(got) > len(want[k]):
							kind = "unselected-point-delivered"
						case len(got) < len(want[k]):
							kind = "point-lost"
						}
						p = &problem{kind + ":" + shapes[c.Universe[ti]].Name, fmt.Sprintf("after %v: from() #%d of task T%d (%s) received writes %v, want %v (universe %v)", c.Hist[:i+1], fi, ti, shapes[c.Universe[ti]].Name, got, want[k], c.Universe)}
						return
					}
				}
			}
		}
		if err := env.TM.Close(); err != nil {
			p = &problem{"close-error", err.Error()}
		}
		kit.Wait()
		badWrites := false
		for _, e := range c.Hist {
			if e.Kind == "write" && e.K < -1 {
				badWrites = true
			}
		}
		for _, e := range env.Diag.ErrorsCopy() {
			if badWrites && e.Msg == "failed to evaluate WHERE expression" {
				continue // the documented reaction to a point the lambda cannot be evaluated on
			}
			p = &problem{"node-error", fmt.Sprintf("%+v after %v", e, c.Hist)}
		}
	})
	if pan != nil {
		return &problem{"panic", fmt.Sprintf("panic: %v after %v", pan, c.Hist)}, true
	}
	if leak != "" && p == nil {
		return &problem{"goroutine-leak", fmt.Sprintf("goroutines left after Close: %s (history %v)", leak, c.Hist)}, true
	}
	return
}

func hasDup(a []int) bool {
	s := map[int]bool{}
	for _, x := range a {
		if s[x] {
			return true
		}
		s[x] = true
	}
	return false
}

func TestCheck(t *testing.T) {
	r := rep.New("C02", "model_checking",
		"stream routing on a real TaskMaster: 6 universes of 3 tasks drawn from 10 task shapes (one or two from() nodes, measurement / database / retentionPolicy / where filters, one or two declared dbrps, filtered+unfiltered from() in one task); part (c): every request body of up to 3 lines over {m1,m2} x time stamps {none, 1s, 2s, 3s} (so also decreasing and equal ones) x rp given/defaulted x precision n/s posted to the real services/httpd write handler in front of the TaskMaster, alone and after an earlier request: every from() must see the lines it selects once and in the order written; part (a): every history up to the depth bound over the events start/stop/delete Ti (only when applicable) and write(db, rp, measurement, k) (12 write symbols incl. undeclared and default retention policy and points on which a where() lambda fails to evaluate); a |log() sink under every from(); after every event the harness waits for quiescence and compares every sink with a reference router (subsequence of the writes made while the task ran that the task declares and the from() selects, once, in order). states = distinct (universe, running set) pairs reached; non-trivial = histories in which at least one write is delivered")
	defer r.Write()
	r.Assumption("start is only issued for a task that is not running and stop/delete only for a running one (the task store guarantees this)")
	r.Assumption("events are applied at quiescent states; races between control operations and writes are explored by the scheduler-controlled part (see level_note)")

	if n := vsched.FreeRuns(); n > 0 {
		for _, sc := range concScenarios() {
			r.Add("race_pass_runs", int64(vsched.FreeRun(t, concHarness(sc), n)))
		}
		return
	}
	if rep.ReplayPath() != "" {
		var cr ConcReplay
		if err := rep.LoadReplay(&cr); err == nil && cr.Sc != nil {
			x := vsched.RunOne(t, concHarness(*cr.Sc), cr.Picks)
			if x.Problem != "" {
				r.Violation(x.Key+":"+cr.Sc.Name, x.Problem, cr)
			}
			r.Add("evaluations", 1)
			return
		}
		var hr struct{ HTTP *HTTPCase }
		if err := rep.LoadReplay(&hr); err == nil && hr.HTTP != nil {
			if p := runHTTP(t, *hr.HTTP); p != nil {
				r.Violation(p.kind, p.msg, hr)
			}
			r.Add("evaluations", 1)
			return
		}
		var c Case
		if err := rep.LoadReplay(&c); err != nil {
			t.Fatal(err)
		}
		if p, _ := run(t, c); p != nil {
			r.Violation(p.kind, p.msg, c)
		}
		r.Add("evaluations", 1)
		return
	}
	depth := 4
	if rep.Thorough() {
		depth = 5
	}
	alpha := alphabet()
	n := 0
	httpPart(t, r, &n)
	for _, u := range universes {
		var rec func(hist []Event, running [3]bool, writes int)
		rec = func(hist []Event, running [3]bool, writes int) {
			if len(hist) > 0 && hist[len(hist)-1].Kind == "write" {
				// every proper prefix is checked inside the run of the longer history: run only maximal histories
				// and those ending in a write at full depth
			}
			if len(hist) == depth {
				n++
				if !rep.Mine(n) {
					return
				}
				if r.Expired() {
					r.Cap("deadline")
					return
				}
				c := Case{Universe: u, Hist: append([]Event(nil), hist...)}
				rep.Current(c)
				p, interesting := run(t, c)
				r.Add("evaluations", 1)
				r.Add("transitions", int64(len(hist)))
				if interesting {
					r.AddDistinct("nontrivial", 1)
				}
				r.Distinct("states", fmt.Sprintf("%v|%v", u, running))
				if p != nil {
					r.Violation(p.kind, p.msg, c)
				}
				if r.WantSample() && n%1500 == 11 {
					r.Sample(map[string]any{"universe": u, "history": fmt.Sprint(hist)})
				}
				return
			}
			for _, e := range alpha {
				if !applicable(running, e) {
					continue
				}
				nr := running
				switch e.Kind {
				case "start":
					nr[e.Task] = true
				case "stop", "delete":
					nr[e.Task] = false
				}
				// prune histories that cannot deliver anything: a write before any start
				rec(append(hist, e), nr, writes)
			}
		}
		rec(nil, [3]bool{}, 0)
	}
	r.ExportSet("states")
	r.Note("depth", depth)

	// part (b): control operations racing with writes under the controlled scheduler
	rep.Unwatch()
	shard, nshards := rep.Shard()
	bound := 1
	if rep.Thorough() {
		bound = 2
	}
	var deadline time.Time
	if d := os.Getenv("VERIF_DEADLINE_S"); d != "" {
		var f float64
		fmt.Sscan(d, &f)
		if f > 0 {
			deadline = time.Now().Add(time.Duration(f*float64(time.Second)) / 2)
		}
	}
	scs := concScenarios()
	for i, sc := range scs {
		sc := sc
		dl := deadline
		if !deadline.IsZero() {
			dl = time.Now().Add(deadline.Sub(time.Now()) / time.Duration(len(scs)-i))
		}
		st := vsched.Explore(t, concHarness(sc), bound, shard, nshards, dl, 0, func(f vsched.Found) {
			r.Violation(f.Key+":"+sc.Name, f.Problem+" | schedule "+trim(strings.Join(f.Trace, " "), 1200), ConcReplay{Sc: &sc, Picks: f.Picks})
		})
		r.Add("evaluations", int64(st.Executions))
		r.Add("schedules", int64(st.Executions))
		r.Add("transitions", int64(st.Transitions))
		r.Add("replay_divergences", int64(st.Diverged))
		r.SetMax("deviation_bound_completed", int64(st.BoundDone))
		for o := range st.Outcomes {
			r.Distinct("conc_outcomes", sc.Name+"|"+o)
		}
		if st.Capped {
			r.Cap("concurrent scenario " + sc.Name + " capped by deadline")
		}
		if shard == 0 {
			r.Sample(map[string]any{"concurrent_scenario": sc, "schedules_in_shard_0": st.Executions, "distinct_outcomes": len(st.Outcomes)})
		}
	}
}

type ConcReplay struct {
	Sc    *ConcScenario
	Picks []int
}
