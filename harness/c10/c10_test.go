package c10

import (
	"fmt"
	"regexp"
	"sort"
	"strconv"
	"strings"
	"testing"
	"time"

	"github.com/influxdata/kapacitor"
	"github.com/influxdata/kapacitor/edge"
	"github.com/influxdata/kapacitor/models"
	"github.com/influxdata/kapacitor/zz_verif/kit"
	"github.com/influxdata/kapacitor/zz_verif/rep"
)

// ---------------------------------------------------------------- inputs

// Sym is one input point: the value of field v and the time step from the previous point.
type Sym struct {
	V  string // "1i" "3i" "2.5f" "_" (missing) "s" (string value)
	Dt int    // seconds since the previous point (0 = repeated time stamp)
}

type Case struct {
	Node int
	Mode string // stream | batch
	Seq  []Sym
}

// RP is a plain point of the reference interpreter.
type RP struct {
	Name   string
	Tags   map[string]string
	Fields map[string]any
	T      time.Time
	Dims   []string
	ByName bool
}

func (p RP) clone() RP {
	q := p
	q.Tags = map[string]string{}
	for k, v := range p.Tags {
		q.Tags[k] = v
	}
	q.Fields = map[string]any{}
	for k, v := range p.Fields {
		q.Fields[k] = v
	}
	q.Dims = append([]string(nil), p.Dims...)
	return q
}

func (p RP) group() string {
	return string(models.ToGroupID(p.Name, p.Tags, models.Dimensions{ByName: p.ByName, TagNames: p.Dims}))
}

func (p RP) String() string {
	return fmt.Sprintf("{%s g=%q t=%d tags=%s f=%s}", p.Name, p.group(), p.T.UnixNano()/1e6, kit.FmtTags(p.Tags), kit.FmtFields(p.Fields))
}

func inputs(c Case, off time.Duration) []RP {
	var ps []RP
	t := kit.T0.Add(10 * time.Second).Add(off)
	for i, s := range c.Seq {
		t = t.Add(time.Duration(s.Dt) * time.Second)
		p := RP{Name: "m", Tags: map[string]string{"h": "a", "p": fmt.Sprintf("p%d", i%2)}, Fields: map[string]any{"o": int64(i)}, T: t, Dims: []string{"h"}}
		// the points of one batch do not all carry the same tag keys: the second one has as many tags as the first but
		// another key (r instead of p), the third one more (p and q)
		switch i % 3 {
		case 1:
			p.Tags = map[string]string{"h": "a", "r": "y"}
		case 2:
			p.Tags = map[string]string{"h": "a", "p": "p1", "q": "z"}
		}
		switch s.V {
		case "_":
		case "s":
			p.Fields["v"] = "x"
		default:
			if strings.HasSuffix(s.V, "i") {
				n, _ := strconv.ParseInt(strings.TrimSuffix(s.V, "i"), 10, 64)
				p.Fields["v"] = n
			} else {
				f, _ := strconv.ParseFloat(strings.TrimSuffix(s.V, "f"), 64)
				p.Fields["v"] = f
			}
		}
		ps = append(ps, p)
	}
	return ps
}

// ---------------------------------------------------------------- the nodes and their documented function

type NodeSpec struct {
	Name string
	Tick string
	// Ref maps the points of one group (stream) or one batch to the output points; state never spans batches.
	Ref func(in []RP) []RP
	// NoRef: no reference semantics, only the sibling/duplicate-branch oracles apply
	NoRef bool
	// Regroup: the node changes the group of points (batch mode output is compared as a set of batches)
	Regroup bool
}

func num(v any) (float64, bool) {
	switch x := v.(type) {
	case int64:
		return float64(x), true
	case float64:
		return x, true
	}
	return 0, false
}

// vGreater1 evaluates lambda: "v" > 1 (int and float operands may be compared; anything else is an error)
func vGreater1(p RP) (bool, bool) {
	f, ok := num(p.Fields["v"])
	if !ok {
		return false, false
	}
	return f > 1, true
}

func perPoint(f func(p RP) (RP, bool)) func(in []RP) []RP {
	return func(in []RP) []RP {
		var out []RP
		for _, p := range in {
			if q, ok := f(p.clone()); ok {
				out = append(out, q)
			}
		}
		return out
	}
}

func derivative(as string, nonNeg bool) func(in []RP) []RP {
	return func(in []RP) []RP {
		var out []RP
		var prev *RP
		for i := range in {
			p := in[i]
			cur, ok := num(p.Fields["v"])
			if !ok {
				continue // wrong type or missing: skipped, not remembered
			}
			if prev == nil {
				prev = &in[i]
				continue
			}
			pv, _ := num(prev.Fields["v"])
			el := p.T.Sub(prev.T)
			prevT := prev
			_ = prevT
			prev = &in[i]
			if el == 0 {
				continue
			}
			if nonNeg && cur-pv < 0 {
				continue
			}
			q := p.clone()
			q.Fields[as] = (cur - pv) / (float64(el) / float64(time.Second))
			out = append(out, q)
		}
		return out
	}
}

func stateTrack(duration bool) func(in []RP) []RP {
	return func(in []RP) []RP {
		var out []RP
		count := int64(0)
		var start time.Time
		in1 := false
		for _, p := range in {
			pass, ok := vGreater1(p)
			if !ok {
				continue // evaluation error: the point is dropped, the state is untouched
			}
			q := p.clone()
			if !pass {
				count, in1 = 0, false
				if duration {
					q.Fields["state_duration"] = float64(-1)
				} else {
					q.Fields["state_count"] = int64(-1)
				}
			} else {
				if !in1 {
					start, in1 = p.T, true
				}
				count++
				if duration {
					q.Fields["state_duration"] = float64(p.T.Sub(start)) / float64(time.Second)
				} else {
					q.Fields["state_count"] = count
				}
			}
			out = append(out, q)
		}
		return out
	}
}

func regroup(dims func(p RP) []string, byName bool) func(in []RP) []RP {
	return perPoint(func(p RP) (RP, bool) {
		p.Dims = dims(p)
		p.ByName = p.ByName || byName
		return p, true
	})
}

func allTags(p RP, exclude ...string) []string {
	var ks []string
	for k := range p.Tags {
		skip := false
		for _, x := range exclude {
			if x == k {
				skip = true
			}
		}
		if !skip {
			ks = append(ks, k)
		}
	}
	sort.Strings(ks)
	return ks
}

var nodes = []NodeSpec{
	{Name: "where", Tick: `where(lambda: "v" > 1)`, Ref: perPoint(func(p RP) (RP, bool) {
		pass, ok := vGreater1(p)
		return p, ok && pass
	})},
	{Name: "eval-as", Tick: `eval(lambda: "v" * 2).as('w')`, Ref: perPoint(func(p RP) (RP, bool) {
		v, ok := p.Fields["v"].(int64)
		if !ok {
			return p, false
		}
		p.Fields = map[string]any{"w": v * 2}
		return p, true
	})},
	{Name: "eval-keep-all", Tick: `eval(lambda: "v" * 2).as('w').keep()`, Ref: perPoint(func(p RP) (RP, bool) {
		v, ok := p.Fields["v"].(int64)
		if !ok {
			return p, false
		}
		p.Fields["w"] = v * 2
		return p, true
	})},
	{Name: "eval-keep-list", Tick: `eval(lambda: "v" * 2, lambda: "w" + 1).as('w', 'x').keep('v', 'x')`, Ref: perPoint(func(p RP) (RP, bool) {
		v, ok := p.Fields["v"].(int64)
		if !ok {
			return p, false
		}
		p.Fields = map[string]any{"v": v, "x": v*2 + 1}
		return p, true
	})},
	{Name: "eval-overwrite", Tick: `eval(lambda: "v" + 1).as('v').keep()`, Ref: perPoint(func(p RP) (RP, bool) {
		v, ok := p.Fields["v"].(int64)
		if !ok {
			return p, false
		}
		p.Fields["v"] = v + 1
		return p, true
	})},
	{Name: "eval-overwrite-keep-list", Tick: `eval(lambda: "v" + 1).as('v').keep('v', 'o')`, Ref: perPoint(func(p RP) (RP, bool) {
		v, ok := p.Fields["v"].(int64)
		if !ok {
			return p, false
		}
		nf := map[string]any{"v": v + 1}
		if o, ok := p.Fields["o"]; ok {
			nf["o"] = o
		} else {
			return p, false // a kept field that does not exist: the point is dropped with an error
		}
		p.Fields = nf
		return p, true
	})},
	{Name: "eval-float", Tick: `eval(lambda: float("v") / 2.0).as('w').keep()`, Ref: perPoint(func(p RP) (RP, bool) {
		f, ok := num(p.Fields["v"])
		if !ok {
			return p, false
		}
		p.Fields["w"] = f / 2
		return p, true
	})},
	{Name: "eval-tags", Tick: `eval(lambda: string("o")).as('s').tags('s').keep('v')`, Ref: perPoint(func(p RP) (RP, bool) {
		v, ok := p.Fields["v"]
		if !ok {
			return p, false // cannot keep a field that does not exist
		}
		p.Tags["s"] = fmt.Sprint(p.Fields["o"])
		p.Fields = map[string]any{"v": v}
		return p, true
	})},
	{Name: "eval-quiet", Tick: `eval(lambda: "v" * 2).as('w').quiet()`, Ref: perPoint(func(p RP) (RP, bool) {
		v, ok := p.Fields["v"].(int64)
		if !ok {
			return p, false
		}
		p.Fields = map[string]any{"w": v * 2}
		return p, true
	})},
	{Name: "default", Tick: `default().field('v', 7).field('z', 1.5).tag('k', 'd').tag('p', 'never')`, Ref: perPoint(func(p RP) (RP, bool) {
		if _, ok := p.Fields["v"]; !ok {
			p.Fields["v"] = int64(7)
		}
		p.Fields["z"] = 1.5
		p.Tags["k"] = "d"
		if v, ok := p.Tags["p"]; !ok || v == "" {
			p.Tags["p"] = "never" // only a point that lacks the tag gets the default
		}
		return p, true
	})},
	{Name: "delete", Tick: `delete().field('o').field('nope').tag('p')`, Ref: perPoint(func(p RP) (RP, bool) {
		delete(p.Fields, "o")
		delete(p.Tags, "p")
		return p, true
	})},
	{Name: "delete-dimension", Tick: `delete().tag('h')`, Regroup: true, Ref: perPoint(func(p RP) (RP, bool) {
		delete(p.Tags, "h")
		p.Dims = nil
		return p, true
	})},
	{Name: "shift+", Tick: `shift(5s)`, Ref: perPoint(func(p RP) (RP, bool) { p.T = p.T.Add(5 * time.Second); return p, true })},
	{Name: "shift-", Tick: `shift(-5s)`, Ref: perPoint(func(p RP) (RP, bool) { p.T = p.T.Add(-5 * time.Second); return p, true })},
	{Name: "sample-count", Tick: `sample(2)`, Ref: func(in []RP) []RP {
		var out []RP
		for i, p := range in {
			if i%2 == 0 {
				out = append(out, p.clone())
			}
		}
		return out
	}},
	{Name: "sample-time", Tick: `sample(2s)`, Ref: perPoint(func(p RP) (RP, bool) { return p, p.T.Equal(p.T.Truncate(2 * time.Second)) })},
	{Name: "derivative", Tick: `derivative('v').unit(1s)`, Ref: derivative("v", false)},
	{Name: "derivative-as-nonNegative", Tick: `derivative('v').unit(1s).as('d').nonNegative()`, Ref: derivative("d", true)},
	{Name: "changeDetect", Tick: `changeDetect('v')`, Ref: func(in []RP) []RP {
		var out []RP
		var prev any
		have := false
		for _, p := range in {
			v, ok := p.Fields["v"]
			if !ok {
				continue
			}
			if !have || prev != v {
				out = append(out, p.clone())
				prev, have = v, true
			}
		}
		return out
	}},
	{Name: "stateCount", Tick: `stateCount(lambda: "v" > 1)`, Ref: stateTrack(false)},
	{Name: "stateDuration", Tick: `stateDuration(lambda: "v" > 1).unit(1s)`, Ref: stateTrack(true)},
	{Name: "groupBy-p", Tick: `groupBy('p')`, Regroup: true, Ref: regroup(func(p RP) []string { return []string{"p"} }, false)},
	{Name: "groupBy-p-byMeasurement", Tick: `groupBy('p').byMeasurement()`, Regroup: true, Ref: regroup(func(p RP) []string { return []string{"p"} }, true)},
	{Name: "groupBy-star", Tick: `groupBy(*)`, Regroup: true, Ref: regroup(func(p RP) []string { return allTags(p) }, false)},
	{Name: "groupBy-star-exclude", Tick: `groupBy(*).exclude('p')`, Regroup: true, Ref: regroup(func(p RP) []string { return allTags(p, "p") }, false)},
	{Name: "groupBy-none", Tick: `groupBy()`, Regroup: true, Ref: regroup(func(p RP) []string { return nil }, false)},
	{Name: "flatten", Tick: `flatten().on('p').tolerance(1s)`, NoRef: true},
	{Name: "combine", Tick: `combine(lambda: "p" == 'p0', lambda: "p" == 'p1').as('x', 'y').tolerance(1s)`, NoRef: true},
	// exactly as many combinations as max() allows (3 points of one instant, pairs: C(3,2) = 3), and one fewer allowed
	{Name: "combine-max-exact", Tick: `combine(lambda: TRUE, lambda: TRUE).as('x', 'y').tolerance(1s).max(3)`, NoRef: true},
	{Name: "chain", Tick: "default().field('v', 0)|eval(lambda: \"v\" + 1).as('w').keep()|where(lambda: \"w\" > 2)|shift(1s)", NoRef: true},
}

// ---------------------------------------------------------------- running

func (c Case) script(single bool) string {
	n := nodes[c.Node]
	var src string
	if c.Mode != "stream" {
		src = "var src = batch|query('SELECT v FROM \"db\".\"rp\".\"m\"').period(100s).every(100s)\n"
	} else {
		src = "var src = stream|from().measurement('m').groupBy('h')\n"
	}
	if single {
		return src + "src|" + n.Tick + "|log().prefix('A')\n"
	}
	// the raw sibling is declared between two identical branches so that it sits after one and before the other
	return src + "src|" + n.Tick + "|log().prefix('A')\nsrc|log().prefix('R')\nsrc|" + n.Tick + "|log().prefix('B')\n"
}

type result struct {
	sinks map[string][]kit.Item
	// failed: "node failed" diagnostics (a node whose run function returned an error: the task is dead)
	failed []string
	err    string
	leak  string
	pan   string
}

func toBatch(ps []RP, tmax time.Time) edge.BufferedBatchMessage {
	var bps []edge.BatchPointMessage
	for _, p := range ps {
		q := p.clone()
		bps = append(bps, edge.NewBatchPointMessage(models.Fields(q.Fields), models.Tags(q.Tags), q.T))
	}
	return edge.NewBufferedBatchMessage(edge.NewBeginBatchMessage("m", models.Tags{"h": "a"}, false, tmax, len(bps)), bps, edge.NewEndBatchMessage())
}

const batchGap = 100 * time.Second

// nBatches: batch mode feeds the batch twice plus a closing empty batch; batch-noclose stops after the second
// copy (nothing follows the last batch, as at the end of a replay or when the task stops)
func nBatches(c Case) int {
	if c.Mode == "batch-noclose" {
		return 2
	}
	return 3
}

func tmaxOf(k int) time.Time { return kit.T0.Add(50 * time.Second).Add(time.Duration(k) * batchGap) }

func run(t *testing.T, c Case, single bool) (res result) {
	res.sinks = map[string][]kit.Item{}
	leak, pan := kit.Bubble(t, func() {
		env, err := kit.NewEnv("c10")
		if err != nil {
			panic(err)
		}
		tt := kapacitor.StreamTask
		if c.Mode != "stream" {
			tt = kapacitor.BatchTask
		}
		if _, err := env.Start("t", c.script(single), tt, kit.DBRP); err != nil {
			res.err = err.Error()
			env.TM.Close()
			return
		}
		kit.Wait()
		if c.Mode != "stream" {
			cols := env.TM.BatchCollectors("t")
			// the same batch twice (second copy 100s later): state must not span batches; then an empty
			// batch later still, which lets nodes that buffer by batch time release the second one
			for k := 0; k < nBatches(c); k++ {
				ps := inputs(c, time.Duration(k)*batchGap)
				if k == 2 {
					ps = nil
				}
				if err := cols[0].CollectBatch(toBatch(ps, tmaxOf(k))); err != nil {
					res.err = err.Error()
				}
				kit.Wait()
			}
			for _, col := range cols {
				col.Close()
			}
			kit.Wait()
		} else {
			for _, p := range inputs(c, 0) {
				q := p.clone()
				if err := env.Write("db", "rp", kit.MkPoint(q.Name, q.Tags, q.Fields, q.T)); err != nil {
					res.err = err.Error()
				}
				kit.Wait()
			}
		}
		env.TM.StopTask("t")
		kit.Wait()
		env.TM.Close()
		kit.Wait()
		for _, name := range env.Diag.SinkNames() {
			res.sinks[name] = append([]kit.Item(nil), env.Diag.Sink(name).Items...)
		}
		for _, e := range env.Diag.ErrorsCopy() {
			if e.Msg == "node failed" {
				res.failed = append(res.failed, e.Node+": "+e.Err)
			}
		}
	})
	res.leak = leak
	if pan != nil {
		res.pan = fmt.Sprint(pan)
	}
	return
}

// ---------------------------------------------------------------- oracle

type problem struct{ key, msg string }

var groupRe = regexp.MustCompile(` g="[^"]*"`)

func itemsStr(its []kit.Item) []string {
	var s []string
	for _, it := range its {
		if it.P != nil {
			s = append(s, it.P.String())
		} else {
			s = append(s, it.B.String())
		}
	}
	return s
}

func ptStr(p kit.Pt) string { return p.String() }

func refPtStr(p RP) string {
	return kit.Pt{Name: p.Name, Group: p.group(), Tags: p.Tags, Fields: p.Fields, T: p.T}.String()
}

func describe(c Case) string {
	var s []string
	for _, x := range c.Seq {
		s = append(s, fmt.Sprintf("%s+%ds", x.V, x.Dt))
	}
	return fmt.Sprintf("%s |%s input [%s]", c.Mode, nodes[c.Node].Tick, strings.Join(s, " "))
}

// expected sink content as canonical strings. Batch mode: one string per batch.
func expected(c Case) []string {
	n := nodes[c.Node]
	if c.Mode == "stream" {
		var out []string
		for _, p := range n.Ref(inputs(c, 0)) {
			out = append(out, refPtStr(p))
		}
		return out
	}
	var out []string
	for k := 0; k < nBatches(c); k++ {
		in := inputs(c, time.Duration(k)*batchGap)
		if k == 2 {
			in = nil
		}
		ps := n.Ref(in)
		tmax := tmaxOf(k)
		if strings.HasPrefix(n.Name, "shift") {
			d := 5 * time.Second
			if n.Name == "shift-" {
				d = -d
			}
			tmax = tmax.Add(d)
		}
		if !n.Regroup {
			out = append(out, refBatchStr("m", map[string]string{"h": "a"}, []string{"h"}, false, tmax, ps, n.Name))
			continue
		}
		// regrouping nodes: one batch per new group (no batch for an empty input batch unless the node keeps it)
		if n.Name == "delete-dimension" {
			out = append(out, refBatchStr("m", map[string]string{}, nil, false, tmax, ps, n.Name))
			continue
		}
		byG := map[string][]RP{}
		var order []string
		for _, p := range ps {
			g := p.group()
			if _, ok := byG[g]; !ok {
				order = append(order, g)
			}
			byG[g] = append(byG[g], p)
		}
		sort.Strings(order)
		for _, g := range order {
			gp := byG[g]
			tags := map[string]string{}
			for _, d := range gp[0].Dims {
				tags[d] = gp[0].Tags[d]
			}
			sort.SliceStable(gp, func(i, j int) bool { return gp[i].T.Before(gp[j].T) })
			out = append(out, refBatchStr("m", tags, gp[0].Dims, gp[0].ByName, tmax, gp, n.Name))
		}
	}
	return out
}

func refBatchStr(name string, tags map[string]string, dims []string, byName bool, tmax time.Time, ps []RP, node string) string {
	b := kit.Bt{Name: name, Tags: tags, TMax: tmax}
	b.Group = string(models.ToGroupID(name, tags, models.Dimensions{ByName: byName, TagNames: dims}))
	for _, p := range ps {
		pt := kit.Pt{Tags: p.Tags, Fields: p.Fields, T: p.T}
		if node == "default" {
			// the batch's own tags are defaulted too
		}
		b.Points = append(b.Points, pt)
	}
	if node == "default" {
		b.Tags = map[string]string{"h": "a", "k": "d", "p": "never"}
	}
	return b.String()
}

func check(t *testing.T, c Case, r *rep.R) []problem {
	n := nodes[c.Node]
	cls := n.Name + ":" + c.Mode
	res := run(t, c, false)
	if r != nil {
		r.Add("evaluations", 1)
		r.Add("transitions", int64(len(c.Seq)))
	}
	if res.pan != "" {
		return []problem{{"panic:" + cls, describe(c) + ": " + rep.Short(res.pan)}}
	}
	if res.err != "" {
		return []problem{{"rejected:" + cls, describe(c) + ": " + res.err}}
	}
	var ps []problem
	if res.leak != "" {
		ps = append(ps, problem{"leak:" + cls, describe(c) + ": " + rep.Short(res.leak)})
	}
	if len(res.failed) > 0 {
		// none of the enumerated inputs is beyond what a node accepts (combine: at most max() combinations per instant)
		ps = append(ps, problem{"node-failed:" + cls, fmt.Sprintf("%s: %v", describe(c), res.failed)})
	}
	a, b, raw := itemsStr(res.sinks["A"]), itemsStr(res.sinks["B"]), itemsStr(res.sinks["R"])
	if n.Regroup && c.Mode != "stream" {
		sort.Strings(a)
		sort.Strings(b)
	}
	// 1. the sibling branch sees the original data
	var wantRaw []string
	if c.Mode == "stream" {
		for _, p := range inputs(c, 0) {
			wantRaw = append(wantRaw, refPtStr(p))
		}
	} else {
		for k := 0; k < nBatches(c); k++ {
			in := inputs(c, time.Duration(k)*batchGap)
			if k == 2 {
				in = nil
			}
			wantRaw = append(wantRaw, refBatchStr("m", map[string]string{"h": "a"}, []string{"h"}, false, tmaxOf(k), in, ""))
		}
	}
	if strings.Join(raw, "\n") != strings.Join(wantRaw, "\n") {
		ps = append(ps, problem{"sibling-sees-altered-data:" + cls, fmt.Sprintf("%s: the sibling branch src|log() saw\n  %v\nbut the data sent was\n  %v", describe(c), raw, wantRaw)})
	}
	// 2. two identical branches agree
	if strings.Join(a, "\n") != strings.Join(b, "\n") {
		ps = append(ps, problem{"identical-branches-differ:" + cls, fmt.Sprintf("%s: branch A saw\n  %v\nbranch B (same node) saw\n  %v", describe(c), a, b)})
	}
	// 3. the documented function
	if !n.NoRef {
		want := expected(c)
		if n.Regroup && c.Mode != "stream" {
			sort.Strings(want)
		}
		if strings.Join(a, "\n") != strings.Join(want, "\n") {
			kind := "wrong-output:"
			if groupRe.ReplaceAllString(strings.Join(a, "\n"), "") == groupRe.ReplaceAllString(strings.Join(want, "\n"), "") {
				kind = "wrong-group-only:" // name, tags, fields and times agree, the group id does not
			}
			ps = append(ps, problem{kind + cls, fmt.Sprintf("%s: output\n  %v\nreference\n  %v", describe(c), a, want)})
		} else if r != nil && len(want) > 0 {
			r.AddDistinct("nontrivial", 1)
		}
	} else {
		// no reference: the branch inside the fork must equal the same node in a pipeline of its own
		solo := run(t, c, true)
		sa := itemsStr(solo.sinks["A"])
		if strings.Join(a, "\n") != strings.Join(sa, "\n") {
			ps = append(ps, problem{"fork-changes-output:" + cls, fmt.Sprintf("%s: inside the fork\n  %v\nalone\n  %v", describe(c), a, sa)})
		} else if r != nil && len(sa) > 0 {
			r.AddDistinct("nontrivial", 1)
		}
	}
	return ps
}

// ---------------------------------------------------------------- enumeration

func seqs(maxLen int) [][]Sym {
	var alpha []Sym
	for _, v := range []string{"1i", "3i", "2.5f", "_", "s"} {
		for _, dt := range []int{0, 1, 2} {
			alpha = append(alpha, Sym{v, dt})
		}
	}
	out := [][]Sym{{}}
	frontier := [][]Sym{{}}
	for l := 1; l <= maxLen; l++ {
		var next [][]Sym
		for _, s := range frontier {
			for _, a := range alpha {
				next = append(next, append(append([]Sym(nil), s...), a))
			}
		}
		out = append(out, next...)
		frontier = next
	}
	return out
}

func TestCheck(t *testing.T) {
	r := rep.New("C10", "model_checking",
		"per-point and per-group nodes on real tasks: 28 node variants (where; eval with as/keep()/keep(list)/overwrite/float()/tags/quiet; default; delete of fields, tags and of the group-by tag; shift +-; sample by count and by time; derivative with unit/as/nonNegative; changeDetect; stateCount; stateDuration; groupBy on a tag, byMeasurement, *, * with exclude, none; flatten; combine; a 4-node chain) x stream edge and batch edge x EVERY input sequence of up to 3 points over 5 values of the field (two ints, a float, missing, a string) x 3 time steps (repeated time stamp, +1s, +2s). Each case runs one real task src|NODE|log('A'), src|log('R'), src|NODE|log('B'); batch mode feeds the batch twice (state must not span batches) plus a closing empty batch. Oracles: (1) the raw sibling branch R sees exactly the data sent; (2) branches A and B agree; (3) A equals an independent reference interpreter of the node over plain structs (name, tags, fields with Go types, time, group id); flatten/combine/chain have no reference and are compared with the same node in a pipeline of its own instead. states = cases, transitions = points")
	defer r.Write()
	r.Assumption("lambda typing follows the TICKscript rules: int and float may be compared, arithmetic needs equal types; a point on which a lambda fails is dropped by where/eval/stateCount/stateDuration")
	r.Assumption("regrouping nodes on a batch edge: the output batches of one input batch are compared as a set")

	if rep.ReplayPath() != "" {
		var c Case
		if err := rep.LoadReplay(&c); err != nil {
			t.Fatal(err)
		}
		for _, p := range check(t, c, r) {
			r.Violation(p.key, p.msg, c)
		}
		return
	}
	ml := 3
	all := seqs(ml)
	n := 0
	for ni := range nodes {
		for _, mode := range []string{"stream", "batch", "batch-noclose"} {
			if mode == "batch-noclose" && !nodes[ni].Regroup {
				continue
			}
			for _, s := range all {
				n++
				if !rep.Mine(n) {
					continue
				}
				if r.Expired() {
					r.Cap("deadline")
					return
				}
				c := Case{Node: ni, Mode: mode, Seq: s}
				rep.Current(c)
				r.Add("states", 1)
				for _, p := range check(t, c, r) {
					r.Violation(p.key, p.msg, c)
				}
				if r.WantSample() && n%5003 == 11 {
					r.Sample(map[string]any{"case": describe(c), "script": c.script(false)})
				}
			}
		}
	}
}
