# Registry of checks for bin/check. pkg: harness directory (virtual package zz_verif/<pkg>).
CHECKS = {
    "C03": {"pkg": "c03", "deps": ["kit"], "level": "model_checking",
            "deadline_s": {"quick": 240, "thorough": 3000}},
}
