// Command instr rewrites kapacitor packages for the controlled scheduler (vsched):
//   - import "sync"            -> the vsync shim (same identifiers, bubble-channel based, gated)
//   - go f(...) / go func(){}()  -> vsched.Go(func(){...}) (arguments evaluated by the parent first)
//   - ch <- v, <-ch, close(ch)  -> a vsched.Point() gate before the statement that contains it
//   - for x := range ch         -> explicit receive loop with a gate before every receive
//   - select                    -> vsched.NewSelect / Recv / Send / Default / Wait (scheduler picks the
//     polling rotation; bodies are moved unchanged into a switch)
//   - selected package constants -> variables the harness can set (e.g. edge buffer size)
//
// Output: rewritten copies under -out and an overlay.json mapping the original paths to them.
// The rewrite is derived from the CURRENT working tree on every run.
package main

import (
	"bytes"
	"encoding/json"
	"flag"
	"fmt"
	"go/ast"
	"go/format"
	"go/token"
	"go/types"
	"os"
	"path/filepath"
	"strings"

	"golang.org/x/tools/go/ast/astutil"
	"golang.org/x/tools/go/packages"
)

type varFlags []string

func (v *varFlags) String() string     { return strings.Join(*v, ",") }
func (v *varFlags) Set(s string) error { *v = append(*v, s); return nil }

const vschedPath = "github.com/influxdata/kapacitor/zz_verif/vsched"
const vsyncPath = "github.com/influxdata/kapacitor/zz_verif/vsync"

func main() {
	var repo, out, modfile string
	var consts varFlags
	flag.StringVar(&repo, "repo", "/repo", "")
	flag.StringVar(&out, "out", "", "")
	flag.StringVar(&modfile, "modfile", "", "")
	flag.Var(&consts, "var", "pkgpath.Const: turn this constant into a variable")
	flag.Parse()
	pkgs := flag.Args()
	cfg := &packages.Config{
		Mode:       packages.NeedName | packages.NeedFiles | packages.NeedSyntax | packages.NeedTypes | packages.NeedTypesInfo | packages.NeedCompiledGoFiles,
		Dir:        repo,
		BuildFlags: []string{"-modfile=" + modfile},
		Env:        append(os.Environ(), "GOFLAGS=-mod=mod", "GOPROXY=off"),
	}
	loaded, err := packages.Load(cfg, pkgs...)
	if err != nil {
		fatal("load: %v", err)
	}
	overlay := map[string]string{}
	stats := map[string]int{}
	for _, p := range loaded {
		if len(p.Errors) > 0 {
			fatal("package %s: %v", p.PkgPath, p.Errors)
		}
		constSet := map[string]bool{}
		for _, c := range consts {
			i := strings.LastIndex(c, ".")
			if c[:i] == p.PkgPath {
				constSet[c[i+1:]] = true
			}
		}
		for i, f := range p.Syntax {
			fn := p.CompiledGoFiles[i]
			if !strings.HasPrefix(fn, repo) || strings.HasSuffix(fn, "_test.go") {
				continue
			}
			r := &rewriter{fset: p.Fset, info: p.TypesInfo, stats: stats, constSet: constSet, file: f}
			changed := r.rewriteFile(f)
			if !changed {
				continue
			}
			var buf bytes.Buffer
			if err := format.Node(&buf, p.Fset, f); err != nil {
				fatal("format %s: %v", fn, err)
			}
			rel, _ := filepath.Rel(repo, fn)
			dst := filepath.Join(out, rel)
			os.MkdirAll(filepath.Dir(dst), 0o755)
			if err := os.WriteFile(dst, buf.Bytes(), 0o644); err != nil {
				fatal("write: %v", err)
			}
			overlay[fn] = dst
		}
	}
	b, _ := json.MarshalIndent(overlay, "", " ")
	if err := os.WriteFile(filepath.Join(out, "overlay.json"), b, 0o644); err != nil {
		fatal("write overlay: %v", err)
	}
	sb, _ := json.Marshal(stats)
	os.WriteFile(filepath.Join(out, "stats.json"), sb, 0o644)
}

func fatal(f string, a ...any) {
	fmt.Fprintf(os.Stderr, "instr: "+f+"\n", a...)
	os.Exit(1)
}

type rewriter struct {
	fset     *token.FileSet
	info     *types.Info
	stats    map[string]int
	constSet map[string]bool
	file     *ast.File
	usesV    bool
	selN     int
}

func (r *rewriter) rewriteFile(f *ast.File) bool {
	changed := false
	// 1. sync import -> shim
	for _, imp := range f.Imports {
		if imp.Path.Value == `"sync"` {
			imp.Path.Value = `"` + vsyncPath + `"`
			if imp.Name == nil {
				imp.Name = ast.NewIdent("sync")
			}
			changed = true
			r.stats["sync_imports"]++
		}
	}
	// 2. constants -> variables
	if len(r.constSet) > 0 {
		for _, d := range f.Decls {
			gd, ok := d.(*ast.GenDecl)
			if !ok || gd.Tok != token.CONST {
				continue
			}
			all := true
			any := false
			for _, s := range gd.Specs {
				vs := s.(*ast.ValueSpec)
				for _, n := range vs.Names {
					if r.constSet[n.Name] {
						any = true
					} else {
						all = false
					}
				}
			}
			_ = all // the whole group becomes variables; a use in a constant context fails the build (exit 2), never silently
			if any {
				gd.Tok = token.VAR
				changed = true
				r.stats["consts_to_vars"]++
			}
		}
	}
	// 3. statements
	for _, d := range f.Decls {
		if fd, ok := d.(*ast.FuncDecl); ok && fd.Body != nil {
			r.block(fd.Body)
		}
		if gd, ok := d.(*ast.GenDecl); ok {
			// function literals in package level vars
			ast.Inspect(gd, func(n ast.Node) bool {
				if fl, ok := n.(*ast.FuncLit); ok {
					r.block(fl.Body)
					return false
				}
				return true
			})
		}
	}
	// close(ch) -> vsched.Close(ch) (the scheduler remembers closed channels for select readiness)
	astutil.Apply(f, func(c *astutil.Cursor) bool {
		call, ok := c.Node().(*ast.CallExpr)
		if !ok {
			return true
		}
		id, ok := call.Fun.(*ast.Ident)
		if !ok || id.Name != "close" || len(call.Args) != 1 {
			return true
		}
		if ch, isChan := r.typeOf(call.Args[0]).(*types.Chan); isChan && ch.Dir() != types.RecvOnly {
			if ch.Dir() == types.SendOnly {
				return true // vsched.Close needs a bidirectional channel for type inference; keep the builtin
			}
			call.Fun = &ast.SelectorExpr{X: ast.NewIdent("vsched"), Sel: ast.NewIdent("Close")}
			r.usesV = true
			r.stats["close"]++
		}
		return true
	}, nil)
	if r.usesV {
		astutil.AddNamedImport(r.fset, f, "vsched", vschedPath)
		changed = true
	}
	return changed
}

func (r *rewriter) gate() ast.Stmt {
	r.usesV = true
	r.stats["gates"]++
	return &ast.ExprStmt{X: &ast.CallExpr{Fun: &ast.SelectorExpr{X: ast.NewIdent("vsched"), Sel: ast.NewIdent("Point")}}}
}

// hasChanOp reports whether the statement itself (not nested blocks or function literals) performs a
// channel send, receive or close.
func (r *rewriter) hasChanOp(s ast.Stmt) bool {
	found := false
	var visit func(n ast.Node) bool
	visit = func(n ast.Node) bool {
		if found || n == nil {
			return false
		}
		switch x := n.(type) {
		case *ast.FuncLit, *ast.BlockStmt, *ast.SelectStmt:
			return false
		case *ast.SendStmt:
			found = true
			return false
		case *ast.UnaryExpr:
			if x.Op == token.ARROW {
				found = true
				return false
			}
		case *ast.CallExpr:
			if id, ok := x.Fun.(*ast.Ident); ok && id.Name == "close" && len(x.Args) == 1 {
				if _, isChan := r.typeOf(x.Args[0]).(*types.Chan); isChan {
					found = true
					return false
				}
			}
		}
		return true
	}
	switch x := s.(type) {
	case *ast.IfStmt:
		ast.Inspect(x.Init, visit)
		ast.Inspect(x.Cond, visit)
	case *ast.ForStmt:
		ast.Inspect(x.Init, visit)
		// cond/post channel ops are not gated (not used in kapacitor); detect and refuse
		c := false
		chk := func(n ast.Node) bool {
			if u, ok := n.(*ast.UnaryExpr); ok && u.Op == token.ARROW {
				c = true
			}
			if _, ok := n.(*ast.FuncLit); ok {
				return false
			}
			return true
		}
		if x.Cond != nil {
			ast.Inspect(x.Cond, chk)
		}
		if x.Post != nil {
			ast.Inspect(x.Post, chk)
		}
		if c {
			fatal("channel receive in for condition/post at %s is not supported", r.fset.Position(x.Pos()))
		}
	case *ast.SwitchStmt:
		ast.Inspect(x.Init, visit)
		ast.Inspect(x.Tag, visit)
	case *ast.TypeSwitchStmt:
		ast.Inspect(x.Init, visit)
		ast.Inspect(x.Assign, visit)
	case *ast.RangeStmt, *ast.LabeledStmt, *ast.BlockStmt, *ast.SelectStmt, *ast.CaseClause, *ast.CommClause:
	case *ast.GoStmt:
		// the spawned call's own channel ops happen in the child
		for _, a := range x.Call.Args {
			ast.Inspect(a, visit)
		}
	case *ast.DeferStmt:
		for _, a := range x.Call.Args {
			ast.Inspect(a, visit)
		}
	default:
		ast.Inspect(s, visit)
	}
	return found
}

func (r *rewriter) typeOf(e ast.Expr) types.Type {
	if tv, ok := r.info.Types[e]; ok && tv.Type != nil {
		return tv.Type.Underlying()
	}
	return nil
}

func (r *rewriter) block(b *ast.BlockStmt) {
	if b == nil {
		return
	}
	b.List = r.stmts(b.List)
}

func (r *rewriter) stmts(list []ast.Stmt) []ast.Stmt {
	var out []ast.Stmt
	for _, s := range list {
		out = append(out, r.stmt(s)...)
	}
	return out
}

// funcLits rewrites the bodies of function literals nested in expressions of s.
func (r *rewriter) funcLits(n ast.Node) {
	if n == nil {
		return
	}
	ast.Inspect(n, func(x ast.Node) bool {
		switch y := x.(type) {
		case *ast.FuncLit:
			r.block(y.Body)
			return false
		case *ast.BlockStmt:
			return false
		}
		return true
	})
}

func (r *rewriter) stmt(s ast.Stmt) []ast.Stmt {
	var pre []ast.Stmt
	if r.hasChanOp(s) {
		pre = append(pre, r.gate())
	}
	switch x := s.(type) {
	case *ast.BlockStmt:
		r.block(x)
	case *ast.IfStmt:
		r.funcLits(x.Init)
		r.funcLits(x.Cond)
		r.block(x.Body)
		if x.Else != nil {
			e := r.stmt(x.Else)
			if len(e) == 1 {
				x.Else = e[0]
			} else {
				x.Else = &ast.BlockStmt{List: e}
			}
		}
	case *ast.ForStmt:
		r.funcLits(x.Init)
		r.funcLits(x.Cond)
		r.funcLits(x.Post)
		r.block(x.Body)
	case *ast.RangeStmt:
		r.funcLits(x.X)
		r.block(x.Body)
		if _, ok := r.typeOf(x.X).(*types.Chan); ok {
			return append(pre, r.rangeChan(x))
		}
	case *ast.SwitchStmt:
		r.funcLits(x.Init)
		r.funcLits(x.Tag)
		for _, c := range x.Body.List {
			cc := c.(*ast.CaseClause)
			for _, e := range cc.List {
				r.funcLits(e)
			}
			cc.Body = r.stmts(cc.Body)
		}
	case *ast.TypeSwitchStmt:
		r.funcLits(x.Init)
		r.funcLits(x.Assign)
		for _, c := range x.Body.List {
			cc := c.(*ast.CaseClause)
			cc.Body = r.stmts(cc.Body)
		}
	case *ast.SelectStmt:
		return append(pre, r.selectStmt(x, nil)...)
	case *ast.LabeledStmt:
		if sel, ok := x.Stmt.(*ast.SelectStmt); ok {
			return append(pre, r.selectStmt(sel, x.Label)...)
		}
		inner := r.stmt(x.Stmt)
		// gates of the inner statement go before the label only if the label is not a loop target that is
		// re-entered (continue L jumps to the loop, whose own header is re-evaluated): keep the label on the statement
		if len(inner) == 1 {
			x.Stmt = inner[0]
			return append(pre, x)
		}
		x.Stmt = inner[len(inner)-1]
		return append(append(pre, inner[:len(inner)-1]...), x)
	case *ast.GoStmt:
		return append(pre, r.goStmt(x)...)
	case *ast.DeferStmt:
		r.funcLits(x.Call)
	case *ast.CaseClause, *ast.CommClause:
	default:
		r.funcLits(s)
	}
	return append(pre, s)
}

// for x := range ch { body }  ->  for { vsched.Point(); x, ok := <-ch; if !ok { break }; body }
func (r *rewriter) rangeChan(x *ast.RangeStmt) ast.Stmt {
	r.stats["range_chan"]++
	okName := ast.NewIdent(fmt.Sprintf("__ok%d", r.selN))
	r.selN++
	recv := &ast.UnaryExpr{Op: token.ARROW, X: x.X}
	var assign ast.Stmt
	if x.Key == nil || isBlank(x.Key) {
		assign = &ast.AssignStmt{Lhs: []ast.Expr{ast.NewIdent("_"), okName}, Tok: token.DEFINE, Rhs: []ast.Expr{recv}}
	} else if x.Tok == token.DEFINE {
		assign = &ast.AssignStmt{Lhs: []ast.Expr{x.Key, okName}, Tok: token.DEFINE, Rhs: []ast.Expr{recv}}
	} else {
		// for x = range ch with an existing variable:  var ok bool; x, ok = <-ch
		decl := &ast.DeclStmt{Decl: &ast.GenDecl{Tok: token.VAR, Specs: []ast.Spec{&ast.ValueSpec{Names: []*ast.Ident{okName}, Type: ast.NewIdent("bool")}}}}
		asg := &ast.AssignStmt{Lhs: []ast.Expr{x.Key, okName}, Tok: token.ASSIGN, Rhs: []ast.Expr{recv}}
		brk := &ast.IfStmt{Cond: &ast.UnaryExpr{Op: token.NOT, X: okName}, Body: &ast.BlockStmt{List: []ast.Stmt{&ast.BranchStmt{Tok: token.BREAK}}}}
		body := append([]ast.Stmt{r.gate(), decl, asg, brk}, x.Body.List...)
		return &ast.ForStmt{Body: &ast.BlockStmt{List: body}}
	}
	brk := &ast.IfStmt{Cond: &ast.UnaryExpr{Op: token.NOT, X: okName}, Body: &ast.BlockStmt{List: []ast.Stmt{&ast.BranchStmt{Tok: token.BREAK}}}}
	body := append([]ast.Stmt{r.gate(), assign, brk}, x.Body.List...)
	return &ast.ForStmt{Body: &ast.BlockStmt{List: body}}
}

func isBlank(e ast.Expr) bool {
	id, ok := e.(*ast.Ident)
	return ok && id.Name == "_"
}

// go f(a, b)  ->  { __a0, __a1 := a, b; vsched.Go(func() { f(__a0, __a1) }) }
func (r *rewriter) goStmt(g *ast.GoStmt) []ast.Stmt {
	r.usesV = true
	r.stats["go"]++
	call := g.Call
	var pre []ast.Stmt
	if fl, ok := call.Fun.(*ast.FuncLit); ok {
		r.block(fl.Body)
	} else {
		r.funcLits(call.Fun)
	}
	for _, a := range call.Args {
		r.funcLits(a)
	}
	// evaluate function value (if not a literal or plain identifier/selector) and arguments in the parent
	newArgs := make([]ast.Expr, len(call.Args))
	for i, a := range call.Args {
		name := ast.NewIdent(fmt.Sprintf("__g%d_%d", r.selN, i))
		pre = append(pre, &ast.AssignStmt{Lhs: []ast.Expr{name}, Tok: token.DEFINE, Rhs: []ast.Expr{a}})
		newArgs[i] = name
	}
	if call.Ellipsis != token.NoPos && len(newArgs) > 0 {
		// f(xs...) keeps the ellipsis on the temp
	}
	switch f := call.Fun.(type) {
	case *ast.FuncLit, *ast.Ident:
	case *ast.SelectorExpr:
		// method value: receiver expression evaluated by the parent
		if _, isIdent := f.X.(*ast.Ident); !isIdent {
			name := ast.NewIdent(fmt.Sprintf("__gr%d", r.selN))
			pre = append(pre, &ast.AssignStmt{Lhs: []ast.Expr{name}, Tok: token.DEFINE, Rhs: []ast.Expr{f.X}})
			f.X = name
		}
	default:
		name := ast.NewIdent(fmt.Sprintf("__gf%d", r.selN))
		pre = append(pre, &ast.AssignStmt{Lhs: []ast.Expr{name}, Tok: token.DEFINE, Rhs: []ast.Expr{call.Fun}})
		call.Fun = name
	}
	r.selN++
	call.Args = newArgs
	lit := &ast.FuncLit{Type: &ast.FuncType{Params: &ast.FieldList{}}, Body: &ast.BlockStmt{List: []ast.Stmt{&ast.ExprStmt{X: call}}}}
	spawn := &ast.ExprStmt{X: &ast.CallExpr{Fun: &ast.SelectorExpr{X: ast.NewIdent("vsched"), Sel: ast.NewIdent("Go")}, Args: []ast.Expr{lit}}}
	if len(pre) == 0 {
		return []ast.Stmt{spawn}
	}
	return []ast.Stmt{&ast.BlockStmt{List: append(pre, spawn)}}
}

// select rewriting, see package comment.
func (r *rewriter) selectStmt(s *ast.SelectStmt, label *ast.Ident) []ast.Stmt {
	r.usesV = true
	r.stats["select"]++
	id := r.selN
	r.selN++
	sName := ast.NewIdent(fmt.Sprintf("__s%d", id))
	v := func(name string) ast.Expr {
		return &ast.SelectorExpr{X: ast.NewIdent("vsched"), Sel: ast.NewIdent(name)}
	}
	var pre []ast.Stmt
	pre = append(pre, &ast.AssignStmt{Lhs: []ast.Expr{sName}, Tok: token.DEFINE, Rhs: []ast.Expr{&ast.CallExpr{Fun: v("NewSelect")}}})
	sw := &ast.SwitchStmt{Tag: &ast.CallExpr{Fun: &ast.SelectorExpr{X: sName, Sel: ast.NewIdent("Wait")}}, Body: &ast.BlockStmt{}}
	for i, c := range s.Body.List {
		cc := c.(*ast.CommClause)
		body := r.stmts(cc.Body)
		idx := &ast.BasicLit{Kind: token.INT, Value: fmt.Sprint(i)}
		var head []ast.Stmt
		switch comm := cc.Comm.(type) {
		case nil:
			pre = append(pre, &ast.ExprStmt{X: &ast.CallExpr{Fun: v("Default"), Args: []ast.Expr{sName}}})
		case *ast.SendStmt:
			r.funcLits(comm.Chan)
			r.funcLits(comm.Value)
			pre = append(pre, &ast.ExprStmt{X: &ast.CallExpr{Fun: v("Send"), Args: []ast.Expr{sName, comm.Chan, comm.Value}}})
		case *ast.ExprStmt:
			u := comm.X.(*ast.UnaryExpr)
			r.funcLits(u.X)
			pre = append(pre, &ast.ExprStmt{X: &ast.CallExpr{Fun: v("RecvDiscard"), Args: []ast.Expr{sName, u.X}}})
		case *ast.AssignStmt:
			u := comm.Rhs[0].(*ast.UnaryExpr)
			r.funcLits(u.X)
			cName := ast.NewIdent(fmt.Sprintf("__c%d_%d", id, i))
			pre = append(pre, &ast.AssignStmt{Lhs: []ast.Expr{cName}, Tok: token.DEFINE, Rhs: []ast.Expr{&ast.CallExpr{Fun: v("Recv"), Args: []ast.Expr{sName, u.X}}}})
			rhs := []ast.Expr{&ast.SelectorExpr{X: cName, Sel: ast.NewIdent("V")}}
			if len(comm.Lhs) == 2 {
				rhs = append(rhs, &ast.SelectorExpr{X: cName, Sel: ast.NewIdent("OK")})
			}
			head = append(head, &ast.AssignStmt{Lhs: comm.Lhs, Tok: comm.Tok, Rhs: rhs})
			if comm.Tok == token.DEFINE {
				// silence "declared and not used" for variables the original body does not use is not needed:
				// the original would not compile either.
			}
		default:
			fatal("unsupported select comm at %s", r.fset.Position(cc.Pos()))
		}
		sw.Body.List = append(sw.Body.List, &ast.CaseClause{List: []ast.Expr{idx}, Body: append(head, body...)})
	}
	// keeps the statement terminating when the original select was (all clauses return): see Go spec
	sw.Body.List = append(sw.Body.List, &ast.CaseClause{Body: []ast.Stmt{&ast.ExprStmt{X: &ast.CallExpr{Fun: ast.NewIdent("panic"), Args: []ast.Expr{&ast.BasicLit{Kind: token.STRING, Value: `"vsched: impossible select index"`}}}}}})
	var last ast.Stmt = sw
	if label != nil {
		last = &ast.LabeledStmt{Label: label, Stmt: sw}
	}
	return []ast.Stmt{&ast.BlockStmt{List: append(pre, last)}}
}
