package c07

import (
	"fmt"
	"os"
	"sort"
	"strings"
	"testing"
	"testing/synctest"
	"time"

	"github.com/influxdata/kapacitor"
	"github.com/influxdata/kapacitor/zz_verif/kit"
	"github.com/influxdata/kapacitor/zz_verif/rep"
	"github.com/influxdata/kapacitor/zz_verif/vsched"
)

// Scenario: a pipeline with an output, a producer writing N points, a stopper.
type Scenario struct {
	Name      string
	Script    string
	N         int
	Stop      string // stop | delete | close
	Script2   string // optional second task (consumer of a loopback), declared on db2.rp
	SlowWrite bool   // the first InfluxDB write blocks until a separate goroutine releases it
	Watcher   bool   // a goroutine calls ExecutingTask.Wait() concurrently (as the task store does)
	Buf       int    // edge buffer size (0 = 1)
	MaxExec   int    // >0: only this many schedules (scenario that documents a known deadlock)
	Bound     int    // >0: deviation bound for this scenario in the quick tier
}

func scenarios() []Scenario {
	var r []Scenario
	for _, stop := range []string{"stop", "delete", "close"} {
		r = append(r,
			Scenario{"influxdbout", `stream|from().measurement('m')|log().prefix('IN')|influxDBOut().database('out').measurement('o')`, 3, stop, "", false, false, 0, 0, 0},
			Scenario{"log", `stream|from().measurement('m')|log().prefix('IN')|log().prefix('S')`, 3, stop, "", false, false, 0, 0, 0},
			Scenario{"window-log", `stream|from().measurement('m')|log().prefix('IN')|window().periodCount(1).everyCount(1)|log().prefix('S')`, 3, stop, "", false, false, 0, 0, 0},
			Scenario{Name: "slow-write", Script: `stream|from().measurement('m')|log().prefix('IN')|influxDBOut().database('out').buffer(2)`, N: 5, Stop: stop, SlowWrite: true, Buf: 2},
			Scenario{Name: "watcher-slow-write", Script: `stream|from().measurement('m')|log().prefix('IN')|influxDBOut().database('out').buffer(1)`, N: 3, Stop: stop, SlowWrite: true, Watcher: true},
			Scenario{Name: "watcher-influxdbout", Script: `stream|from().measurement('m')|log().prefix('IN')|influxDBOut().database('out').buffer(1)`, N: 3, Stop: stop, Watcher: true},
			Scenario{Name: "loopback", Script: `stream|from().measurement('m')|log().prefix('IN')|kapacitorLoopback().database('db2').retentionPolicy('rp').measurement('loop')`, N: 3, Stop: stop,
				Script2: `stream|from().measurement('loop')|log().prefix('S')`, Buf: 8},
			Scenario{Name: "loopback-full-ingest-buffer", Script: `stream|from().measurement('m')|log().prefix('IN')|kapacitorLoopback().database('db2').retentionPolicy('rp').measurement('loop')`, N: 3, Stop: stop,
				Script2: `stream|from().measurement('loop')|log().prefix('S')`, Buf: 1, MaxExec: 3},
			// a loopback next to a sibling output declared after it: whatever happens to the loopback's writes while the
			// task master goes down, the sibling still gets every acknowledged point
			Scenario{Name: "loopback-sibling", Script: "var src = stream|from().measurement('m')\nsrc|log().prefix('IN')\nsrc|kapacitorLoopback().database('db2').retentionPolicy('rp').measurement('loop')\nsrc|log().prefix('S')", N: 3, Stop: stop, Buf: 8},
			Scenario{"eval-influxdbout", `stream|from().measurement('m')|log().prefix('IN')|eval(lambda: "v" + 1).as('w').keep('v', 'w')|influxDBOut().database('out').buffer(2)`, 3, stop, "", false, false, 0, 0, 0},
		)
	}
	return r
}

type obs struct {
	acked        int // WritePoints calls that returned nil
	ackedAtStop  int // ... before the stop call began
	stopReturned bool
	stopErr      error
	closeErr     error
	atStopReturn []int64 // what had reached the output when the stop call returned
	watcherDone  bool
}

func harness(sc Scenario) vsched.Harness {
	return vsched.Harness{
		Cfg: vsched.Sched{MaxSteps: 4000, Horizon: time.Hour},
		Setup: func() (func(), func(*vsched.Exec)) {
			if sc.Buf > 0 {
				kapacitor.VerifSetEdgeBufferSize(sc.Buf)
			} else {
				kapacitor.VerifSetEdgeBufferSize(1)
			}
			o := &obs{}
			var env *kit.Env
			_ = env
			fi := &kit.FakeInflux{BeforeWrite: vsched.Point}
			release := make(chan struct{})
			if sc.SlowWrite {
				first := true
				fi.BeforeWrite = func() {
					vsched.Point()
					if first {
						first = false
						<-release // the first write hangs until the releaser lets it go
					}
				}
			}
			outputNow := func() []int64 {
				var got []int64
				if strings.Contains(sc.Script, "influxDBOut") {
					for _, p := range fi.WrittenCopy() {
						if v, ok := p.Fields["v"].(int64); ok {
							got = append(got, v)
						}
					}
				} else if env != nil {
					for _, it := range env.Diag.Sink("S").Items {
						if it.P != nil {
							got = append(got, it.P.Fields["v"].(int64))
						}
						if it.B != nil {
							for _, p := range it.B.Points {
								got = append(got, p.Fields["v"].(int64))
							}
						}
					}
				}
				return got
			}
			var setupErr error
			body := func() {
				vsched.NoBranch(true)
				env, setupErr = kit.NewEnv("c07")
				if setupErr != nil {
					return
				}
				env.TM.InfluxDBService = fi
				et, err := env.StartStream("t", sc.Script)
				if err != nil {
					setupErr = err
					return
				}
				if sc.Script2 != "" {
					if _, setupErr = env.Start("t2", sc.Script2, kapacitor.StreamTask, []kapacitor.DBRP{{Database: "db2", RetentionPolicy: "rp"}}); setupErr != nil {
						return
					}
				}
				vsched.Idle()
				vsched.NoBranch(false)
				done := make(chan struct{}, 4)
				nActors := 2
				if sc.Watcher {
					nActors++
					vsched.Go(func() { // like the task store: wait for the task to finish
						et.Wait()
						o.watcherDone = true
						vsched.Point()
						done <- struct{}{}
					})
				}
				if sc.SlowWrite {
					nActors++
					vsched.Go(func() { // releases the hanging write once everything else is stuck behind it
						vsched.Idle()
						vsched.Close(release)
						vsched.Point()
						done <- struct{}{}
					})
				}
				stopBegan := false
				vsched.Go(func() { // producer
					for i := 0; i < sc.N; i++ {
						p := kit.MkPoint("m", nil, map[string]any{"v": int64(i)}, kit.T0.Add(time.Duration(i)*time.Second))
						if err := env.Write("db", "rp", p); err == nil {
							o.acked++
							if !stopBegan {
								o.ackedAtStop++
							}
						}
					}
					vsched.Point()
					done <- struct{}{}
				})
				vsched.Go(func() { // stopper
					stopBegan = true
					switch sc.Stop {
					case "stop":
						o.stopErr = env.TM.StopTask("t")
					case "delete":
						o.stopErr = env.TM.DeleteTask("t")
					case "close":
						o.stopErr = env.TM.Close()
					}
					o.stopReturned = true
					o.atStopReturn = outputNow()
					vsched.Point()
					done <- struct{}{}
				})
				for i := 0; i < nActors; i++ {
					vsched.Point()
					<-done
				}
				vsched.NoBranch(true)
				if sc.Stop != "close" {
					o.closeErr = env.TM.Close()
				}
			}
			check := func(x *vsched.Exec) {
				synctest.Wait()
				if setupErr != nil {
					x.Key, x.Problem = "setup", setupErr.Error()
					return
				}
				if x.S.Verdict != "" {
					x.Key, x.Problem = "stop-"+x.S.Verdict, fmt.Sprintf("%s/%s: schedule ended with %s\n%s", sc.Name, sc.Stop, x.S.Verdict, trim(x.S.Detail, 3000))
					return
				}
				if !o.stopReturned {
					x.Key, x.Problem = "stop-not-returned", fmt.Sprintf("%s/%s: the stop call did not return", sc.Name, sc.Stop)
					return
				}
				// what reached the output
				got := outputNow()
				x.Outcome = fmt.Sprintf("acked=%d atStop=%d out=%v", o.acked, o.ackedAtStop, got)
				seen := map[int64]int{}
				for _, v := range got {
					seen[v]++
					if seen[v] > 1 {
						x.Key, x.Problem = "duplicate-output", fmt.Sprintf("%s/%s: point %d reached the output twice: %v", sc.Name, sc.Stop, v, got)
						return
					}
				}
				// points are written in order 0..N-1, so the first ackedAtStop points were accepted before the stop began
				entered := map[int64]bool{}
				for _, it := range env.Diag.Sink("IN").Items {
					if it.P != nil {
						entered[it.P.Fields["v"].(int64)] = true
					}
				}
				for i := 0; i < o.ackedAtStop; i++ {
					if seen[int64(i)] == 0 {
						where := "lost-inside-the-pipeline"
						if !entered[int64(i)] {
							where = "never-entered-the-pipeline"
						}
						x.Key, x.Problem = "accepted-point-dropped:"+where, fmt.Sprintf("%s/%s: point %d was acknowledged before the stop call began but never reached the output (output %v, %d acknowledged before stop, %d in total)", sc.Name, sc.Stop, i, got, o.ackedAtStop, o.acked)
						return
					}
				}
				if sc.Script2 == "" {
					// ... and it must have been handed to the output before the stop call returned
					at := map[int64]bool{}
					for _, v := range o.atStopReturn {
						at[v] = true
					}
					for i := 0; i < o.ackedAtStop; i++ {
						if !at[int64(i)] && entered[int64(i)] {
							x.Key, x.Problem = "output-after-stop-returned", fmt.Sprintf("%s/%s: the stop call returned while point %d (accepted before the stop, inside the pipeline) had not been handed to the output yet (output at return %v, finally %v)", sc.Name, sc.Stop, i, o.atStopReturn, got)
							return
						}
					}
				}
				if !sort.SliceIsSorted(got, func(i, j int) bool { return got[i] < got[j] }) {
					x.Key, x.Problem = "output-reordered", fmt.Sprintf("%s/%s: output order %v", sc.Name, sc.Stop, got)
					return
				}
				for _, e := range env.Diag.ErrorsCopy() {
					x.Key, x.Problem = "node-error", fmt.Sprintf("%s/%s: %+v", sc.Name, sc.Stop, e)
					return
				}
			}
			return body, check
		},
	}
}

func trim(s string, n int) string {
	if len(s) > n {
		return s[:n] + "..."
	}
	return s
}

type Replay struct {
	Sc    Scenario
	Picks []int
}

func TestCheck(t *testing.T) {
	r := rep.New("C07", "model_checking",
		"graceful stop under the controlled scheduler: real TaskMaster and pipelines (instrumented packages kapacitor and edge, edge buffers of size 1), a producer goroutine writing 3 points, a stopper goroutine calling StopTask / DeleteTask / TaskMaster.Close, outputs influxDBOut (fake client whose Write is a scheduling point), log sinks, count windows; every interleaving of producer, stopper, fork, node and write-buffer goroutines and every select rotation up to the deviation bound. Oracle per schedule: every point acknowledged before the stop call began reaches the output exactly once and in order, the stop call returns, no deadlock/livelock verdict, no goroutine left when the bubble ends")
	defer r.Write()
	r.Assumption("sequentially consistent interleavings at synchronisation operations; setup (task start) and final teardown take the default schedule")
	r.Assumption("'accepted before the stop' = WritePoints returned nil before the stop call began")
	if n := vsched.FreeRuns(); n > 0 {
		for _, sc := range scenarios() {
			r.Add("race_pass_runs", int64(vsched.FreeRun(t, harness(sc), n)))
		}
		return
	}
	if rep.ReplayPath() != "" {
		var sr StopReplay
		if err := rep.LoadReplay(&sr); err == nil && sr.Batch != "" {
			if p := runBatchStop(t, batchStopScripts[sr.Batch]); p != "" {
				r.Violation(strings.SplitN(p, ":", 2)[0]+":"+sr.Batch, p, sr)
			}
			r.Add("evaluations", 1)
			return
		}
		if err := rep.LoadReplay(&sr); err == nil && sr.Stop != nil {
			for _, p := range runStopCase(t, *sr.Stop) {
				r.Violation(strings.SplitN(p, ":", 2)[0]+":"+sr.Stop.Name, p, sr)
			}
			r.Add("evaluations", 1)
			return
		}
		var rp Replay
		if err := rep.LoadReplay(&rp); err != nil {
			t.Fatal(err)
		}
		x := vsched.RunOne(t, harness(rp.Sc), rp.Picks)
		if os.Getenv("VERIF_DEBUG") != "" && x.S != nil {
			for i, c := range x.S.Trace {
				fmt.Fprintf(os.Stderr, "%d %s %s (n=%d)\n", i, c.Kind, c.Chosen, c.N)
			}
			fmt.Fprintf(os.Stderr, "outcome: %s problem: %s verdict: %s\n", x.Outcome, x.Problem, x.S.Verdict)
		}
		if x.Problem != "" {
			r.Violation(x.Key+":"+rp.Sc.Name+":"+rp.Sc.Stop, x.Problem, rp)
		} else if x.Leak != "" {
			r.Violation("goroutine-leak:"+rp.Sc.Name, x.Leak, rp)
		}
		r.Add("evaluations", 1)
		return
	}
	if i, _ := rep.Shard(); i == 0 {
		stopPart(t, r)
	}
	shard, nshards := rep.Shard()
	bound := 1
	if rep.Thorough() {
		bound = 2
	}
	var deadline time.Time
	if d := os.Getenv("VERIF_DEADLINE_S"); d != "" {
		var f float64
		fmt.Sscan(d, &f)
		if f > 0 {
			deadline = time.Now().Add(time.Duration(f * float64(time.Second)))
		}
	}
	scs := scenarios()
	if only := os.Getenv("VERIF_ONLY"); only != "" {
		var f []Scenario
		for _, sc := range scs {
			if strings.Contains(sc.Name+"/"+sc.Stop, only) {
				f = append(f, sc)
			}
		}
		scs = f
	}
	if b := os.Getenv("VERIF_BOUND"); b != "" {
		fmt.Sscan(b, &bound)
	}
	start := time.Now()
	for i, sc := range scs {
		sc := sc
		// every scenario gets an equal share of what is left of the time budget
		dl := deadline
		if !deadline.IsZero() {
			// remaining budget shared by weight: a bound-2 scenario gets 8 shares
			w := func(s Scenario) int {
				if s.Name == "slow-write" && s.Stop == "stop" && bound < 2 {
					return 8
				}
				return 1
			}
			tot := 0
			for _, rest := range scs[i:] {
				tot += w(rest)
			}
			left := deadline.Sub(time.Now())
			dl = time.Now().Add(left * time.Duration(w(sc)) / time.Duration(tot))
		}
		_ = start
		b := bound
		if sc.Name == "slow-write" && sc.Stop == "stop" && b < 2 {
			b = 2 // the final-flush race of the write buffer needs two deviations
		}
		st := vsched.Explore(t, harness(sc), b, shard, nshards, dl, sc.MaxExec, func(f vsched.Found) {
			r.Violation(f.Key+":"+sc.Name+":"+sc.Stop, f.Problem+" | schedule "+trim(strings.Join(f.Trace, " "), 1500), Replay{Sc: sc, Picks: f.Picks})
		})
		r.Add("evaluations", int64(st.Executions))
		r.Add("schedules", int64(st.Executions))
		r.Add("transitions", int64(st.Transitions))
		r.Add("replay_divergences", int64(st.Diverged))
		r.SetMax("choices_per_schedule", int64(st.MaxChoices))
		r.SetMax("deviation_bound_completed", int64(st.BoundDone))
		for o := range st.Outcomes {
			r.Distinct("nontrivial", sc.Name+"|"+sc.Stop+"|"+o)
			r.Distinct("states", sc.Name+"|"+sc.Stop+"|"+o)
		}
		if st.Capped && sc.MaxExec == 0 {
			r.Cap("scenario " + sc.Name + "/" + sc.Stop + " capped by deadline")
		}
		if shard == 0 {
			r.Sample(map[string]any{"scenario": sc, "schedules_in_shard_0": st.Executions, "distinct_outcomes": len(st.Outcomes), "max_choices": st.MaxChoices})
		}
	}
}
