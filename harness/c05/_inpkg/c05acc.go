package kapacitor

import "github.com/influxdata/kapacitor/pipeline"

// VerifNodeRecovers starts a node whose run function panics with a Go runtime error and returns what the node
// runner reports on its error channel (verification accessor, overlay only).
func VerifNodeRecovers(d NodeDiagnostic, pn pipeline.Node) error {
	n := &node{Node: pn, diag: d, errCh: make(chan error, 1)}
	n.runF = func([]byte) error {
		var m map[string]int
		m["x"] = 1
		return nil
	}
	n.start(nil)
	return <-n.errCh
}
