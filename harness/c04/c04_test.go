package c04

import (
	"fmt"
	"math"
	"regexp"
	"strings"
	"testing"
	"time"

	"github.com/influxdata/kapacitor/tick/ast"
	"github.com/influxdata/kapacitor/tick/stateful"
	"github.com/influxdata/kapacitor/zz_verif/rep"
)

// ---------------------------------------------------------------- values

type val struct {
	name string
	v    any // absent{} = not in scope
}

var tRef = time.Date(2000, 1, 2, 3, 4, 5, 6, time.UTC)

var fullVals = []val{
	{"i0", int64(0)}, {"i1", int64(1)}, {"i-1", int64(-1)}, {"i2", int64(2)}, {"imax", int64(math.MaxInt64)}, {"imin", int64(math.MinInt64)},
	{"f0", float64(0)}, {"f1", float64(1)}, {"f1.5", float64(1.5)}, {"f-2.5", float64(-2.5)},
	{"s", ""}, {"sa", "a"}, {"sab", "ab"}, {"s1", "1"}, {"strue", "true"}, {"sé", "é"}, {"s010", "010"}, {"s0x1F", "0x1F"},
	{"T", true}, {"F", false},
	{"d0", time.Duration(0)}, {"d1s", time.Second}, {"d-1s", -time.Second}, {"d90m", 90 * time.Minute},
	{"time", tRef}, {"missing", ast.MissingValue}, {"absent", absent{}},
}

// one representative per type (used for type-changing histories)
var typeReps = []val{
	{"i2", int64(2)}, {"f1.5", float64(1.5)}, {"sa", "a"}, {"T", true}, {"d1s", time.Second}, {"missing", ast.MissingValue}, {"i0", int64(0)},
}
var typeRepsQuick = []val{
	{"i2", int64(2)}, {"f1.5", float64(1.5)}, {"sa", "a"}, {"d1s", time.Second}, {"missing", ast.MissingValue},
}
var typeRepsThorough = []val{
	{"i2", int64(2)}, {"f1.5", float64(1.5)}, {"sa", "a"}, {"T", true}, {"d1s", time.Second}, {"missing", ast.MissingValue}, {"i0", int64(0)},
	{"f0", float64(0)}, {"time", tRef}, {"absent", absent{}},
}

// ---------------------------------------------------------------- cases

type Step struct {
	G    int // group (each group has its own CopyReset of the compiled expression)
	X, Y string
}

type Case struct {
	Expr  string
	Mode  string // Eval | Typed | TypeThenTyped
	Steps []Step
	// Prelude: the last cases of the same worker that called the same stateful functions. Evaluation must not
	// depend on them; if state leaks between expressions (a package-level variable, say) the artefact needs them
	// to reproduce the failure in a fresh process.
	Prelude []Case `json:",omitempty"`
}

var statefulFns = []string{"spread(", "count(", "sigma("}
var recent = map[string][]Case{}

func remember(c Case) {
	for _, f := range statefulFns {
		if strings.Contains(c.Expr, f) {
			l := append(recent[f], Case{Expr: c.Expr, Mode: c.Mode, Steps: c.Steps})
			if len(l) > 12 {
				l = l[len(l)-12:]
			}
			recent[f] = l
		}
	}
}

func withPrelude(c Case) Case {
	for _, f := range statefulFns {
		if strings.Contains(c.Expr, f) {
			c.Prelude = append(c.Prelude, recent[f]...)
		}
	}
	return c
}

var valByName = func() map[string]any {
	m := map[string]any{}
	for _, v := range fullVals {
		m[v.name] = v.v
	}
	return m
}()

func mkScope(x, y any) (*stateful.Scope, map[string]any) {
	sc := stateful.NewScope()
	m := map[string]any{}
	if _, ok := x.(absent); !ok {
		sc.Set("x", x)
		m["x"] = x
	}
	if _, ok := y.(absent); !ok {
		sc.Set("y", y)
		m["y"] = y
	}
	return sc, m
}

type outcome struct {
	v     any
	err   error
	panic any
}

func (o outcome) String() string {
	if o.panic != nil {
		return fmt.Sprintf("PANIC(%v)", o.panic)
	}
	if o.err != nil {
		return fmt.Sprintf("error(%v)", o.err)
	}
	return fmt.Sprintf("%T(%v)", o.v, o.v)
}

func callImpl(e stateful.Expression, mode string, want tkind, sc *stateful.Scope) (o outcome) {
	defer func() {
		if r := recover(); r != nil {
			o = outcome{panic: r}
		}
	}()
	if mode == "Eval" {
		v, err := e.Eval(sc)
		return outcome{v: v, err: err}
	}
	if mode == "TypeThenTyped" {
		if _, err := e.Type(sc); err != nil {
			return outcome{err: err}
		}
	}
	switch want {
	case tInt:
		v, err := e.EvalInt(sc)
		return outcome{v: v, err: err}
	case tFloat:
		v, err := e.EvalFloat(sc)
		return outcome{v: v, err: err}
	case tString:
		v, err := e.EvalString(sc)
		return outcome{v: v, err: err}
	case tDuration:
		v, err := e.EvalDuration(sc)
		return outcome{v: v, err: err}
	default:
		v, err := e.EvalBool(sc)
		return outcome{v: v, err: err}
	}
}

func sameValue(a, b any) bool {
	switch x := a.(type) {
	case float64:
		y, ok := b.(float64)
		if !ok {
			return false
		}
		if math.IsNaN(x) && math.IsNaN(y) {
			return true
		}
		return x == y && math.Signbit(x) == math.Signbit(y)
	case *regexp.Regexp:
		y, ok := b.(*regexp.Regexp)
		return ok && x.String() == y.String()
	case *ast.Missing:
		_, ok := b.(*ast.Missing)
		return ok
	}
	return a == b
}

type problem struct{ kind, msg string }

// run executes one case on the real evaluator and on the reference; returns the first problem.
var parsed = map[string]*ast.LambdaNode{}

func run(c Case, stats *stat) *problem {
	lam := parsed[c.Expr]
	if lam == nil {
		var err error
		lam, err = ast.ParseLambda(c.Expr)
		if err != nil {
			// not a well-formed lambda (e.g. a regex literal outside =~ / !~): outside the quantifier
			stats.unparseable++
			return nil
		}
		parsed = map[string]*ast.LambdaNode{c.Expr: lam}
	}
	base, cerr := stateful.NewExpression(lam.Expression)
	exprs := map[int]stateful.Expression{}
	refs := map[int]*refState{}
	for i, s := range c.Steps {
		x, y := valByName[s.X], valByName[s.Y]
		sc, m := mkScope(x, y)
		st := refs[s.G]
		if st == nil {
			st = newRefState()
			refs[s.G] = st
		}
		st.lenient, st.noRef = false, false
		// reference: static types first, then evaluation
		rt, te := typeOf(lam.Expression, m)
		rv, re := st.eval(lam.Expression, m)
		if te != eNone && re == eNone {
			// dynamically the expression has a value (an ill-typed operand was short-circuited away)
			// but it does not type-check as a whole: either outcome is accepted
			st.lenient = true
			rt = kindOf(rv)
		}
		if re == eNone && (kindOf(rv) == tTime || kindOf(rv) == tRegex || kindOf(rv) == tMissing) {
			// a lambda whose result is a time, regex or missing value has no consumer: not defined
			st.noRef = true
		}
		if cerr != nil {
			// rejected at compile time: the reference must also see an error for this scope
			if re == eNone && !st.noRef && !st.lenient {
				return &problem{"compile-reject", fmt.Sprintf("NewExpression(%s) failed with %q but the reference evaluates it to %T(%v) for x=%s y=%s", c.Expr, cerr, rv, rv, s.X, s.Y)}
			}
			stats.compileRejected++
			return nil
		}
		e := exprs[s.G]
		if e == nil {
			e = base.CopyReset()
			exprs[s.G] = e
		}
		want := rt
		if re != eNone {
			want = tBool
		}
		o := callImpl(e, c.Mode, want, sc)
		stats.evals++
		if o.panic != nil {
			return &problem{"panic", fmt.Sprintf("%s panicked at step %d (x=%s y=%s, mode %s): %v | history %v", c.Expr, i, s.X, s.Y, c.Mode, o.panic, c.Steps)}
		}
		if st.noRef {
			stats.undefined++
			// the reference does not define the outcome; keep the states aligned is impossible: stop this case
			return nil
		}
		if re != eNone {
			stats.errors++
			if o.err == nil {
				return &problem{"missing-error", fmt.Sprintf("%s at step %d (x=%s y=%s, mode %s): reference reports %s but the evaluator returned %v | history %v", c.Expr, i, s.X, s.Y, c.Mode, ename(re), o, c.Steps)}
			}
			// after an error the stateful functions of the implementation may or may not have advanced
			if usesState(c.Expr) {
				return nil
			}
			continue
		}
		if o.err != nil {
			if st.lenient {
				if usesState(c.Expr) {
					return nil
				}
				continue
			}
			return &problem{"spurious-error", fmt.Sprintf("%s at step %d (x=%s y=%s, mode %s): reference value %T(%v) but the evaluator returned %v | history %v", c.Expr, i, s.X, s.Y, c.Mode, rv, rv, o, c.Steps)}
		}
		stats.values++
		if !sameValue(o.v, rv) {
			return &problem{"wrong-value", fmt.Sprintf("%s at step %d (x=%s y=%s, mode %s): evaluator returned %v, reference %T(%v) | history %v", c.Expr, i, s.X, s.Y, c.Mode, o, rv, rv, c.Steps)}
		}
	}
	// Independence probe (self-contained, reproducible in a fresh process): after this expression has seen the
	// history plus two far-apart values, a separately compiled expression must still start from scratch.
	if usesState(c.Expr) && cerr == nil && len(c.Steps) > 0 {
		last := c.Steps[len(c.Steps)-1]
		if e1 := exprs[last.G]; e1 != nil {
			for _, xn := range []string{"f1.5", "f0"} {
				sc, _ := mkScope(valByName[xn], valByName[last.Y])
				callImpl(e1, c.Mode, tBool, sc)
			}
		}
		if e2, err := stateful.NewExpression(lam.Expression); err == nil {
			sc, m := mkScope(valByName["f1.5"], valByName[last.Y])
			fresh := newRefState()
			rt, te := typeOf(lam.Expression, m)
			rv, re := fresh.eval(lam.Expression, m)
			// (durations are left out: duration / sigma() divides by 0.0 on a first value, the conversion of the
			// infinite quotient back to a duration is not defined)
			if te == eNone && re == eNone && kindOf(rv) != tTime && kindOf(rv) != tRegex && kindOf(rv) != tMissing && kindOf(rv) != tDuration {
				o := callImpl(e2, c.Mode, rt, sc)
				if o.panic == nil && o.err == nil && !sameValue(o.v, rv) {
					return &problem{"state-shared-between-expressions", fmt.Sprintf("%s: a freshly compiled expression evaluated for x=f1.5 y=%s returned %v, reference %T(%v), after another instance had evaluated %v and x=1.5, x=0 (mode %s)", c.Expr, last.Y, o, rv, rv, c.Steps, c.Mode)}
				}
			}
		}
	}
	return nil
}

func usesState(expr string) bool {
	return strings.Contains(expr, "count(") || strings.Contains(expr, "sigma(") || strings.Contains(expr, "spread(")
}

func ename(e ekind) string {
	switch e {
	case eType:
		return "a type error"
	case eValue:
		return "an arithmetic/value error"
	}
	return "no error"
}

type stat struct {
	evals, values, errors, undefined, compileRejected, unparseable int64
}

// ---------------------------------------------------------------- expression generators

var binOps = []string{"AND", "OR", "==", "!=", "<", "<=", ">", ">=", "=~", "!~", "+", "-", "*", "/", "%"}
var repOps = []string{"AND", "==", "<", "+", "*", "/", "=~"}

var leavesD1 = []string{`"x"`, `"y"`, `2`, `0`, `1.5`, `0.0`, `'a'`, `TRUE`, `FALSE`, `1s`, `0s`, `/a/`,
	`count()`, `sigma("x")`, `float("x")`, `int("y")`, `string("x")`, `-"x"`, `!"y"`}
var leavesD2 = []string{`"x"`, `"y"`, `2`, `1.5`, `1s`, `'a'`, `TRUE`, `count()`}

func statefulTwice(e string) bool {
	for _, f := range []string{"count(", "sigma(", "spread("} {
		if strings.Count(e, f) > 1 {
			return true
		}
	}
	return false
}

func depth1() []string {
	var r []string
	for _, l := range leavesD1 {
		r = append(r, l)
	}
	for _, op := range binOps {
		for _, a := range leavesD1 {
			for _, b := range leavesD1 {
				e := a + " " + op + " " + b
				if !statefulTwice(e) {
					r = append(r, e)
				}
			}
		}
	}
	return r
}

func depth2(ops []string) []string {
	var r []string
	for _, o1 := range ops {
		for _, o2 := range ops {
			for _, a := range leavesD2 {
				for _, b := range leavesD2 {
					for _, c := range leavesD2 {
						e1 := "(" + a + " " + o1 + " " + b + ") " + o2 + " " + c
						e2 := a + " " + o2 + " (" + b + " " + o1 + " " + c + ")"
						if !statefulTwice(e1) {
							r = append(r, e1, e2)
						}
					}
				}
			}
		}
	}
	return r
}

var argLeaves = []string{`"x"`, `"y"`, `2`, `-1`, `0`, `1.5`, `'ab'`, `''`, `TRUE`, `1s`, `/a/`}

func functions() []string {
	var r []string
	f1 := []string{"bool", "int", "float", "string", "duration", "abs", "sqrt", "floor", "log", "strLength", "strToUpper", "strTrimSpace", "isPresent", "hour", "weekday", "unixNano", "sigma", "spread", "count"}
	f2 := []string{"duration", "pow", "max", "mod", "atan2", "strContains", "strHasPrefix", "strIndex", "strCount", "strTrim", "strTrimPrefix", "abs", "count", "sigma"}
	for _, f := range f1 {
		r = append(r, f+"()")
		for _, a := range argLeaves {
			r = append(r, f+"("+a+")")
		}
	}
	for _, f := range f2 {
		for _, a := range argLeaves {
			for _, b := range argLeaves {
				r = append(r, f+"("+a+", "+b+")")
			}
		}
	}
	ints := []string{`"y"`, `0`, `1`, `2`, `3`, `-1`, `1.5`}
	for _, s := range []string{`"x"`, `'abc'`, `''`} {
		for _, a := range ints {
			for _, b := range ints {
				r = append(r, "strSubstring("+s+", "+a+", "+b+")")
				r = append(r, "strReplace("+s+", 'b', "+s+", "+a+")")
			}
		}
	}
	for _, a := range argLeaves {
		for _, b := range argLeaves {
			r = append(r, "regexReplace(/b+/, "+a+", "+b+")")
			r = append(r, "if("+a+", "+b+", 'z')", "if(\"x\" > 1, "+a+", "+b+")", "if(TRUE, "+a+", "+b+")")
		}
	}
	// more arguments than the function takes, up to more than any function takes (the signature table is keyed by
	// a fixed-size array of argument types)
	for _, f := range []string{"abs", "strLength", "isPresent", "count", "sigma", "int", "if", "strSubstring", "pow"} {
		for _, a := range []string{`"x"`, `1.5`} {
			r = append(r, f+"("+a+", 2.0, 3.0, 4.0, 5.0)", f+"("+a+", 2.0, 3.0, 4.0, 5.0, 6.0)", f+"("+a+", 2.0, 3.0, 4.0, 5.0) > 1.0", "!"+f+"("+a+", TRUE, TRUE, TRUE, TRUE)")
		}
	}
	for _, a := range []string{`"x"`, `1.5`, `TRUE`} {
		r = append(r, "abs("+a+", 2.0, 3.0)", "abs("+a+", 2.0, 3.0, 4.0)", "if("+a+", 1, 2, 3)", "strLength("+a+", 'a', 'b', 'c')")
	}
	// stateful functions in operand positions where re-specialisation can happen
	for _, sf := range []string{`count()`, `sigma("x")`, `spread("x")`, `sigma(float("x"))`} {
		for _, op := range binOps {
			for _, o := range []string{`"y"`, `"x"`, `2`, `1.5`, `1s`} {
				r = append(r, sf+" "+op+" "+o, o+" "+op+" "+sf, "("+sf+" "+op+" "+o+") == \"y\"", "if("+sf+" "+op+" "+o+" > 1, 1, 0)")
			}
		}
	}
	return r
}

// ---------------------------------------------------------------- driver

func usesRefs(e string) (bool, bool) { return strings.Contains(e, `"x"`), strings.Contains(e, `"y"`) }

// shape refines a violation key by what the history exercises, so that every kind of failure keeps an artefact
// of its own (one that state leaking between cases cannot have produced): several groups sharing the compiled
// tree, or a history of several steps
func shape(c Case) string {
	groups := map[int]bool{}
	for _, s := range c.Steps {
		groups[s.G] = true
	}
	switch {
	case len(groups) > 1:
		return ":groups"
	case len(c.Steps) > 1:
		return ":history"
	}
	return ""
}

func TestCheck(t *testing.T) {
	r := rep.New("C04", "model_checking",
		"lambda expressions: every binary operator x every pair of leaves (literals of every type, references, conversion/stateful function calls, unary nodes), depth-2 nestings, and built-in functions with every argument-type vector; each compiled ONCE and evaluated over every history of scopes (x,y values from a typed boundary alphabet; type-changing histories of length 2-3; two groups sharing the compiled tree through CopyReset) through three entry modes (Eval, typed Eval* without Type, Type then typed Eval*). Oracle: an independent cache-free AST interpreter; result value, result type and error-ness must agree, panics are violations. states = distinct (expression, entry mode, type vector sequence) specialisation histories; non-trivial = cases whose history changes an operand type or advances a stateful function")
	defer r.Write()
	r.Assumption("error message texts are not compared, only error-ness; Type() alone is not required to fail on ill-typed expressions")
	r.Assumption("when AND/OR short-circuits and the skipped operand is ill-typed, either the short-circuit value or an error is accepted")
	r.Assumption("float->duration/int conversions out of range, NaN inputs, int(duration), duration(string), isPresent on duration/time/regex, strSubstring with stop == len are not defined by the reference (skipped)")
	r.Assumption("after an evaluation error the state of count()/sigma()/spread() is unspecified: the case stops there")
	r.Assumption("two calls of the same stateful function in one expression share state in the implementation; such expressions are not generated")

	if rep.ReplayPath() != "" {
		var c Case
		if err := rep.LoadReplay(&c); err != nil {
			t.Fatal(err)
		}
		var st stat
		for _, pc := range c.Prelude {
			run(pc, &st)
		}
		if p := run(c, &st); p != nil {
			r.Violation(p.kind+":"+c.Mode+shape(c), p.msg, c)
		}
		r.Add("evaluations", 1)
		return
	}

	thorough := rep.Thorough()
	var exprs []string
	exprs = append(exprs, depth1()...)
	exprs = append(exprs, functions()...)
	if thorough {
		exprs = append(exprs, depth2(repOps)...)
	} else {
		exprs = append(exprs, depth2([]string{"AND", "<", "+", "*"})...)
	}
	reps := typeRepsQuick
	if thorough {
		reps = typeReps
	}
	modes := []string{"Eval", "Typed", "TypeThenTyped"}
	var st stat
	for k, e := range exprs {
		if !rep.Mine(k) {
			continue
		}
		if r.Expired() {
			r.Cap("deadline")
			break
		}
		ux, uy := usesRefs(e)
		single := fullVals
		d2 := strings.HasPrefix(e, "(") || strings.Contains(e, " (")
		hl := 2
		if thorough && !d2 && (usesState(e) || k%5 == 0) {
			hl = 3 // every fifth depth-1 expression and every stateful one gets length-3 histories
		}
		if !thorough && d2 {
			hl = 0
		}
		doCase := func(mode string, steps []Step) {
			c := Case{Expr: e, Mode: mode, Steps: append([]Step(nil), steps...)}
			r.Add("evaluations", 1)
			r.Add("transitions", int64(len(steps)))
			if p := run(c, &st); p != nil {
				r.Violation(p.kind+":"+mode+shape(c), p.msg, withPrelude(c))
			}
			remember(c)
			if len(steps) > 1 {
				r.AddDistinct("states", 1)
				changes := false
				for i, s := range steps {
					if i > 0 && (fmt.Sprintf("%T", valByName[s.X]) != fmt.Sprintf("%T", valByName[steps[i-1].X]) || fmt.Sprintf("%T", valByName[s.Y]) != fmt.Sprintf("%T", valByName[steps[i-1].Y])) {
						changes = true
					}
				}
				if changes || usesState(e) {
					r.AddDistinct("nontrivial", 1)
				}
			}
		}
		for _, mode := range modes {
			// (1) every single scope over the full boundary alphabet
			xs, ys := single, single
			if !ux {
				xs = single[:1]
			}
			if !uy {
				ys = single[:1]
			}
			if d2 {
				xs, ys = reps, reps
				if !ux {
					xs = reps[:1]
				}
				if !uy {
					ys = reps[:1]
				}
			}
			for _, x := range xs {
				for _, y := range ys {
					doCase(mode, []Step{{0, x.name, y.name}})
				}
			}
			// (2) histories with changing types, two groups sharing the compiled tree
			if (!ux && !uy && !usesState(e)) || hl == 0 {
				continue
			}
			hx, hy := reps, reps
			if !ux {
				hx = reps[:1]
			}
			if !uy {
				hy = reps[:1]
			}
			_ = hx
			_ = hy
			histFor(hx, hy, hl, func(steps []Step) { doCase(mode, steps) })
		}
		if r.WantSample() && k%97 == 0 {
			r.Sample(map[string]any{"expr": e, "modes": modes, "history_length": hl})
		}
	}
	r.Add("impl_evaluations", st.evals)
	r.Add("value_results_compared", st.values)
	r.Add("error_results_compared", st.errors)
	r.Add("outcomes_not_defined_by_reference", st.undefined)
	r.Add("compile_time_rejections_checked", st.compileRejected)
	r.Add("generated_texts_not_parseable_as_lambda", st.unparseable)
	r.Note("expressions", len(exprs))
}

func histFor(xs, ys []val, length int, f func([]Step)) {
	steps := make([]Step, length)
	var rec func(i int)
	rec = func(i int) {
		if i == length {
			f(steps)
			return
		}
		for _, x := range xs {
			for _, y := range ys {
				gs := []int{0}
				if i > 0 {
					gs = []int{0, 1}
				}
				for _, g := range gs {
					steps[i] = Step{G: g, X: x.name, Y: y.name}
					rec(i + 1)
				}
			}
		}
	}
	rec(0)
}
