package c05

import (
	"fmt"
	"math"
	"strings"
	"testing"
	"time"

	"github.com/influxdata/kapacitor"
	"github.com/influxdata/kapacitor/zz_verif/kit"
	"github.com/influxdata/kapacitor/zz_verif/rep"
)

// every expression-bearing (or field-reading) node; src is the from() node
var dataNodes = []struct {
	Name  string
	From  string // extra from() properties
	Tick  string // chain after src ("" = none)
	Alert bool
	Out   bool // ends in influxDBOut
}{
	{Name: "where-intdiv", Tick: `|where(lambda: "v" / "d" > 1)`},
	{Name: "where-mod", Tick: `|where(lambda: "v" % "d" == 0)`},
	{Name: "from-where", From: `.where(lambda: "v" / "d" > 1)`},
	{Name: "eval-div", Tick: `|eval(lambda: "v" / "d").as('x')`},
	{Name: "eval-substring", Tick: `|eval(lambda: strSubstring("s", "v", "d")).as('x')`},
	{Name: "where-substring", Tick: `|where(lambda: strLength(strSubstring("s", "v", "d")) >= 0)`},
	{Name: "eval-strindex", Tick: `|eval(lambda: strIndex("s", "s") / "d").as('x')`},
	{Name: "eval-float-div", Tick: `|eval(lambda: float("v") / float("d")).as('x')`},
	{Name: "eval-int-conv", Tick: `|eval(lambda: int("s") + int("v")).as('x')`},
	{Name: "eval-regex", Tick: `|eval(lambda: "s" =~ /x/).as('x')`},
	{Name: "eval-if", Tick: `|eval(lambda: if("v" > 0, "s", "d")).as('x')`},
	{Name: "eval-neg-not", Tick: `|eval(lambda: -"v", lambda: !"d").as('x', 'y')`},
	{Name: "eval-sigma", Tick: `|eval(lambda: sigma("v")).as('x')`},
	{Name: "eval-pow-log", Tick: `|eval(lambda: pow(float("v"), float("d")), lambda: log(float("v"))).as('x', 'y')`},
	{Name: "eval-duration", Tick: `|eval(lambda: 1s * "v", lambda: duration("v", 1s) / "d").as('x', 'y')`},
	{Name: "eval-time-funcs", Tick: `|eval(lambda: hour("time") / "d", lambda: unixNano("time") % "d").as('x', 'y')`},
	{Name: "eval-tags", Tick: `|eval(lambda: "s").as('x').tags('x')`},
	{Name: "eval-keep-missing", Tick: `|eval(lambda: "v" + "d").as('x').keep('x', 's', 'v')`},
	{Name: "stateCount", Tick: `|stateCount(lambda: "v" / "d" > 0)`},
	{Name: "stateDuration", Tick: `|stateDuration(lambda: "v" % "d" > 0)`},
	{Name: "alert", Tick: `|alert().info(lambda: "v" / "d" > 1).warn(lambda: strLength("s") > "d").crit(lambda: "v" % "d" == 1).message('{{ index .Fields "s" }} {{ .Level }}').log('/dev/null')`, Alert: true},
	{Name: "alert-templates", Tick: `|alert().crit(lambda: "v" > "d").id('{{ .Name }}/{{ index .Tags "nope" }}').message('{{ index .Fields "v" }} {{ index .Fields "nope" }}').details('{{ json . }}')`, Alert: true},
	{Name: "alert-id-template-unknown-field", Tick: `|alert().crit(lambda: "v" > "d").id('{{ index .Fields "v" }}')`, Alert: true},
	{Name: "derivative", Tick: `|derivative('v').unit(1s)`},
	{Name: "changeDetect", Tick: `|changeDetect('v', 'd', 's')`},
	{Name: "stream-mean", Tick: `|mean('v')`},
	{Name: "stream-top", Tick: `|top(2, 'v', 's')`},
	{Name: "difference-elapsed", Tick: `|difference('v')|elapsed('difference', 1s)`},
	{Name: "movingAverage", Tick: `|movingAverage('v', 2)`},
	{Name: "window-percentile", Tick: `|window().periodCount(2).everyCount(1)|percentile('v', 50.0)`},
	{Name: "window-count-sum", Tick: `|window().period(2s).every(1s)|sum('d')`},
	{Name: "flatten", Tick: `|flatten().on('s')`},
	{Name: "default-delete", Tick: `|default().field('v', 1.0)|delete().field('d')|eval(lambda: "v" * 2.0).as('x')`},
	{Name: "duration-to-influx", Tick: `|eval(lambda: 1s * "v").as('x')|influxDBOut().database('o')`, Out: true},
	{Name: "groupBy-field-as-tag", From: `.groupBy('s')`, Tick: `|eval(lambda: "v" / "d").as('x')`},
	{Name: "httpOut", Tick: `|eval(lambda: 1s * "v", lambda: float("v") / float("d")).as('x', 'y')|httpOut('h')`},
	// points that carry no tag map at all (what stats, deadman, ungrouped batch queries and UDFs emit) through nodes
	// that write a tag
	{Name: "stats-default-tag", Tick: `|stats(1s)|default().tag('t', 'v')`},
	{Name: "stats-eval-tags", Tick: `|stats(1s)|eval(lambda: string("emitted")).as('e').tags('e')`},
	{Name: "deadman-levelTag-idTag", Tick: `|deadman(100.0, 1s).levelTag('l').idTag('i')`, Alert: true},
	// more arguments than any built-in function takes
	{Name: "where-five-arguments", Tick: `|where(lambda: abs("v", 2.0, 3.0, 4.0, 5.0) > 1.0)`},
	{Name: "eval-five-arguments", Tick: `|eval(lambda: if("v" > 0, 1, 2, 3, 4)).as('x')`},
}

var fieldVals = []struct {
	Name string
	V    any
	Skip bool
}{
	{"missing", nil, true},
	{"0", int64(0), false},
	{"-1", int64(-1), false},
	{"minint", int64(math.MinInt64), false},
	{"maxint", int64(math.MaxInt64), false},
	{"1.5", 1.5, false},
	{"empty-string", "", false},
	{"x", "x", false},
	{"true", true, false},
	{"50", int64(50), false},
}

var sVals = []any{nil, "", "x", "héllo", int64(3), strings.Repeat("漢", 40)} // the last one: 40 runes in 120 bytes

type DataCase struct {
	Node    int
	V, D, S int
}

func (c DataCase) String() string {
	n := dataNodes[c.Node]
	return fmt.Sprintf("stream|from()%s%s with a point v=%s d=%s s=%v", n.From, n.Tick, fieldVals[c.V].Name, fieldVals[c.D].Name, sVals[c.S])
}

func runData(t *testing.T, c DataCase, r *rep.R) []problem {
	n := dataNodes[c.Node]
	var ps []problem
	cls := n.Name
	var rawSeen int
	var executing bool
	var errs []string
	var startErr string
	leak, pan := kit.Bubble(t, func() {
		var env *kit.Env
		var aenv *kit.AlertEnv
		var err error
		if n.Alert {
			aenv, err = kit.NewAlertEnv("c05", kit.AlertOpts{})
			if err == nil {
				env = aenv.Env
			}
		} else {
			env, err = kit.NewEnv("c05")
		}
		if err != nil {
			panic(err)
		}
		env.TM.InfluxDBService = &kit.FakeInflux{}
		// the task under test and an unrelated task that must not notice anything
		script := "var src = stream|from().measurement('m')" + n.From + "\nsrc|log().prefix('R')\nsrc" + n.Tick + "|log().prefix('X')\n"
		if n.Out {
			script = "var src = stream|from().measurement('m')" + n.From + "\nsrc|log().prefix('R')\nsrc" + n.Tick + "\n"
		}
		if _, err := env.StartStream("t", script); err != nil {
			startErr = err.Error()
			env.TM.Close()
			return
		}
		if _, err := env.StartStream("other", "stream|from().measurement('m')|log().prefix('Z')"); err != nil {
			startErr = err.Error()
		}
		kit.Wait()
		// (time passes before the first point: stats and deadman nodes emit for "no group yet", a point without a
		// tag map)
		time.Sleep(1500 * time.Millisecond)
		kit.Wait()
		bad := map[string]any{"o": int64(1)}
		if v := fieldVals[c.V].V; v != nil {
			bad["v"] = v
		}
		if v := fieldVals[c.D].V; v != nil {
			bad["d"] = v
		}
		if v := sVals[c.S]; v != nil {
			bad["s"] = v
		}
		pts := []map[string]any{bad, {"v": int64(4), "d": int64(2), "s": "abcdef", "o": int64(2)}, {"v": int64(8), "d": int64(2), "s": "abcdef", "o": int64(3)}}
		for i, f := range pts {
			env.Write("db", "rp", kit.MkPoint("m", map[string]string{"h": "a"}, f, kit.T0.Add(time.Duration(i+1)*time.Second)))
			kit.Wait()
			time.Sleep(1500 * time.Millisecond) // flush intervals, httpOut etc.
			kit.Wait()
		}
		executing = env.TM.IsExecuting("t")
		if s := env.Diag.Sink("R"); s != nil {
			rawSeen = len(s.Items)
		}
		if z := env.Diag.Sink("Z"); z == nil || len(z.Items) != len(pts) {
			ps = append(ps, problem{"other-task-affected:" + cls, fmt.Sprintf("%s: the unrelated task saw %v of %d points", c, z, len(pts))})
		}
		env.TM.StopTask("t")
		env.TM.StopTask("other")
		kit.Wait()
		if aenv != nil {
			aenv.Shutdown(true)
		} else {
			env.TM.Close()
		}
		kit.Wait()
		for _, e := range env.Diag.ErrorsCopy() {
			errs = append(errs, fmt.Sprintf("%s: %s %s", e.Node, e.Msg, e.Err))
		}
	})
	if r != nil {
		r.Add("evaluations", 1)
		r.Add("data_cases", 1)
		r.Add("transitions", 3)
	}
	if pan != nil {
		return []problem{{"panic:data:" + cls + ":" + site(fmt.Sprint(pan)), fmt.Sprintf("%s: %s", c, rep.Short(fmt.Sprint(pan)))}}
	}
	if startErr != "" {
		return []problem{{"rejected:data:" + cls, fmt.Sprintf("%s: %s", c, startErr)}}
	}
	if strings.HasPrefix(leak, "hang:") {
		ps = append(ps, problem{"hang:data:" + cls, fmt.Sprintf("%s: %s", c, rep.Short(leak))})
	} else if leak != "" {
		ps = append(ps, problem{"goroutine-leak:data:" + cls, fmt.Sprintf("%s: %s", c, rep.Short(leak))})
	}
	if !executing {
		ps = append(ps, problem{"task-killed:" + cls, fmt.Sprintf("%s: the task is no longer executing after the point; errors %v", c, errs)})
	}
	if rawSeen != 3 && !strings.Contains(n.From, "where") {
		ps = append(ps, problem{"points-after-bad-one-lost:" + cls, fmt.Sprintf("%s: the sibling branch saw %d of 3 points", c, rawSeen)})
	}
	for _, e := range errs {
		// (a Go runtime error text means a panic was recovered somewhere; 'integer divide by zero' is also the text
		// of the ordinary error the evaluator returns for x / 0)
		if strings.Contains(e, "panic") || strings.Contains(e, "Trace:") || strings.Contains(e, "goroutine ") ||
			(strings.Contains(e, "runtime error:") && !strings.Contains(e, "integer divide by zero")) {
			ps = append(ps, problem{"node-panic:" + cls, fmt.Sprintf("%s: %s", c, e)})
			break
		}
	}
	if len(ps) == 0 && r != nil {
		r.AddDistinct("nontrivial", 1)
	}
	return ps
}

func dataPart(t *testing.T, r *rep.R, mine func() bool, expired func() bool) {
	for ni := range dataNodes {
		for v := range fieldVals {
			for d := range fieldVals {
				for s := range sVals {
					if !rep.Thorough() && (s == 3 || s == 4) && (v+d)%2 == 1 {
						continue
					}
					if !mine() {
						continue
					}
					if expired() {
						return
					}
					c := DataCase{Node: ni, V: v, D: d, S: s}
					rep.Current(Case{Kind: "data", Data: &c})
					r.Add("states", 1)
					for _, p := range runData(t, c, r) {
						r.Violation(p.key, p.msg, Case{Kind: "data", Data: &c})
					}
				}
			}
		}
	}
	_ = kapacitor.StreamTask
}
