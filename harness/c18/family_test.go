package c18

import (
	"fmt"
	"io"
	"path/filepath"
	"testing"

	"github.com/influxdata/kapacitor"
	"github.com/influxdata/kapacitor/clock"
	"github.com/influxdata/kapacitor/edge"
	"github.com/influxdata/kapacitor/models"
	"github.com/influxdata/kapacitor/services/replay"
	"github.com/influxdata/kapacitor/zz_verif/kit"
)

// ---------------------------------------------------------------- enumerated batch family
//
// Every sequence of up to 2 (thorough 3) batches over: group tags {none, g=a, g=b} x first point at {1s, 0.5s, 11s}
// (a later batch may start before the first one, as the groups of one query do) x 1-2 points x each point with or
// without tags of its own x end time {last point, last point + 10s}. Float fields only (ints in batches are a
// recorded finding and would hide everything behind them).

func familyBatches(starts []int64) []B {
	var out []B
	groups := []map[string]string{nil, {"g": "a"}, {"g": "b"}}
	for gi, g := range groups {
		for _, st := range starts {
			for npts := 1; npts <= 2; npts++ {
				for tagPat := 0; tagPat < 1<<npts; tagPat++ {
					for _, late := range []int64{0, 10e9} {
						var pts []P
						for j := 0; j < npts; j++ {
							var tags map[string]string
							if tagPat&(1<<j) != 0 {
								tags = map[string]string{"cpu": fmt.Sprint(j)}
								for k, v := range g {
									tags[k] = v
								}
							}
							pts = append(pts, P{TNs: t0 + st + int64(j)*1e9, Fields: []Fld{{K: "f", Kind: "f", F: float64(gi*10 + j)}}, Tags: tags})
						}
						out = append(out, B{Name: "m", Tags: g, TMaxNs: pts[len(pts)-1].TNs + late, Points: pts})
					}
				}
			}
		}
	}
	return out
}

func familyCases(thorough bool, f func(BatchCase)) {
	bs := familyBatches([]int64{1e9, 5e8, 11e9})
	for _, rec := range []bool{false, true} {
		for ai, a := range bs {
			f(BatchCase{Batches: []B{a}, RecTime: rec})
			f(BatchCase{Batches: []B{a}, RecTime: rec, Slow: true})
			for bi, b := range bs {
				f(BatchCase{Batches: []B{a, b}, RecTime: rec})
				if thorough || (ai+bi)%4 == 0 {
					f(BatchCase{Batches: []B{a, b}, RecTime: rec, Slow: true})
				}
			}
		}
	}
	if thorough {
		small := familyBatches([]int64{1e9, 5e8})
		var red []B
		for _, b := range small {
			if b.TMaxNs == b.Points[len(b.Points)-1].TNs {
				red = append(red, b)
			}
		}
		for _, a := range red {
			for _, b := range red {
				for _, c := range red {
					f(BatchCase{Batches: []B{a, b, c}, RecTime: false})
				}
			}
		}
	}
}

// ---------------------------------------------------------------- enumerated stream family
//
// Every sequence of 1-2 points over measurement names {plain, with space, with comma, with '=', looking like
// "name,tag=value"} x tag sets {nil, empty, one plain tag, a tag value with a space} x field keys {plain, with space},
// both clock modes, fast and slow collector.

func streamFamily(f func(StreamCase)) {
	var pts []P
	for _, name := range []string{"m", "a b", "a,b", "a=b", "m,t=v"} {
		for ti, tags := range []map[string]string{nil, {}, {"t": "v"}, {"t": "a b"}} {
			for _, fk := range []string{"f", "a b"} {
				pts = append(pts, P{DB: "db", RP: "rp", Name: name, Tags: tags, Fields: []Fld{{K: fk, Kind: "f", F: float64(ti) + 0.5}}})
			}
		}
	}
	for _, rec := range []bool{false, true} {
		for ai, a := range pts {
			a.TNs = t0 + 1e9
			f(StreamCase{Points: []P{a}, RecTime: rec, Precision: "n"})
			f(StreamCase{Points: []P{a}, RecTime: rec, Precision: "n", Slow: true})
			for bi, b := range pts {
				b.TNs = t0 + 2e9
				f(StreamCase{Points: []P{a, b}, RecTime: rec, Precision: "n", Slow: (ai+bi)%3 == 0})
			}
		}
	}
}

// ---------------------------------------------------------------- the file-backed store of services/replay
//
// A batch recording is a zip archive with one entry per batch query of the task; replaying hands entry i to the
// task's i-th batch collector. A stream recording is one gzip file.

type StoreCase struct {
	Queries int   // number of batch queries of the recorded task (0 = stream recording)
	Counts  []int // batches recorded for query i: Counts[i % len(Counts)]
	Points  int   // stream: number of points
	// Prior: the path already holds an earlier, larger recording (a recording whose file could not be removed when it
	// was deleted, or an id used again): the new recording replaces it
	Prior bool `json:",omitempty"`
}

func (c StoreCase) String() string {
	if c.Queries == 0 {
		return fmt.Sprintf("stream recording of %d points through the file store (earlier larger recording at the path: %v)", c.Points, c.Prior)
	}
	return fmt.Sprintf("batch recording of a task with %d queries (batches per query, cyclic: %v) through the file store (earlier larger recording at the path: %v)", c.Queries, c.Counts, c.Prior)
}

func runStore(t *testing.T, c StoreCase) (prob *problem) {
	dir := t.TempDir()
	if c.Queries == 0 {
		return runStoreStream(t, c, dir)
	}
	ds := replay.VerifFileSource(filepath.Join(dir, "rec.brpl"))
	mk := func(q, k int) edge.BufferedBatchMessage {
		tags := models.Tags{"query": fmt.Sprint(q)}
		ts := tm(t0 + int64(k)*10e9 + 1e9)
		pts := []edge.BatchPointMessage{edge.NewBatchPointMessage(models.Fields{"f": float64(q*100 + k)}, tags, ts)}
		return edge.NewBufferedBatchMessage(edge.NewBeginBatchMessage(fmt.Sprintf("m%d", q), tags, false, ts, 1), pts, edge.NewEndBatchMessage())
	}
	if c.Prior {
		ar, err := ds.BatchArchiver()
		if err != nil {
			return &problem{"store-record-error", err.Error()}
		}
		for q := 0; q < c.Queries+2; q++ {
			w, _ := ar.Archive(q)
			for k := 0; k < 3; k++ {
				kapacitor.WriteBatchForRecording(w, mk(q+500, k))
			}
		}
		ar.Close()
	}
	ar, err := ds.BatchArchiver()
	if err != nil {
		return &problem{"store-record-error", err.Error()}
	}
	mk = func(q, k int) edge.BufferedBatchMessage {
		tags := models.Tags{"query": fmt.Sprint(q)}
		ts := tm(t0 + int64(k)*10e9 + 1e9)
		pts := []edge.BatchPointMessage{edge.NewBatchPointMessage(models.Fields{"f": float64(q*100 + k)}, tags, ts)}
		return edge.NewBufferedBatchMessage(edge.NewBeginBatchMessage(fmt.Sprintf("m%d", q), tags, false, ts, 1), pts, edge.NewEndBatchMessage())
	}
	for q := 0; q < c.Queries; q++ {
		w, err := ar.Archive(q)
		if err != nil {
			return &problem{"store-record-error", err.Error()}
		}
		for k := 0; k < c.Counts[q%len(c.Counts)]; k++ {
			if err := kapacitor.WriteBatchForRecording(w, mk(q, k)); err != nil {
				return &problem{"store-record-error", err.Error()}
			}
		}
	}
	if err := ar.Close(); err != nil {
		return &problem{"store-record-error", err.Error()}
	}
	readers, err := ds.BatchReaders()
	if err != nil {
		return &problem{"store-read-error", err.Error()}
	}
	if len(readers) != c.Queries {
		return &problem{"store-reader-count", fmt.Sprintf("%s: %d readers", c, len(readers))}
	}
	cols := make([]*batchCol, c.Queries)
	bcs := make([]kapacitor.BatchCollector, c.Queries)
	for i := range cols {
		cols[i] = &batchCol{}
		bcs[i] = cols[i]
	}
	var rerr error
	leak, pan := kit.Bubble(t, func() {
		rerr = <-kapacitor.ReplayBatchFromIO(clock.Fast(), readers, bcs, true)
	})
	if pan != nil {
		return &problem{"store-panic", fmt.Sprintf("%s: %v", c, pan)}
	}
	if leak != "" {
		return &problem{"store-goroutine-leak", leak}
	}
	if rerr != nil {
		return &problem{"store-replay-error", fmt.Sprintf("%s: %v", c, rerr)}
	}
	for q, col := range cols {
		want := c.Counts[q%len(c.Counts)]
		if col.closed != 1 {
			return &problem{"store-not-closed", fmt.Sprintf("%s: collector %d closed %d times", c, q, col.closed)}
		}
		if len(col.bs) != want {
			return &problem{"store-batch-count", fmt.Sprintf("%s: collector %d received %d batches, %d were recorded for its query", c, q, len(col.bs), want)}
		}
		for k, b := range col.bs {
			w := mk(q, k)
			if b.Name() != w.Name() || b.Tags()["query"] != fmt.Sprint(q) || len(b.Points()) != 1 || !sameVal(b.Points()[0].Fields()["f"], w.Points()[0].Fields()["f"]) || !b.Time().Equal(w.Time()) {
				return &problem{"store-wrong-collector", fmt.Sprintf("%s: collector %d batch %d is %v, recorded %v", c, q, k, kit.BtOf(b), kit.BtOf(w))}
			}
		}
	}
	return nil
}

func runStoreStream(t *testing.T, c StoreCase, dir string) (prob *problem) {
	ds := replay.VerifFileSource(filepath.Join(dir, "rec.srpl"))
	mk := func(i int) edge.PointMessage {
		return edge.NewPointMessage("m", "db", "rp", models.Dimensions{}, models.Fields{"f": float64(i)}, models.Tags{"h": fmt.Sprint(i % 3)}, tm(t0+int64(i)*1e9))
	}
	if c.Prior {
		w, err := ds.StreamWriter()
		if err != nil {
			return &problem{"store-record-error", err.Error()}
		}
		for i := 0; i < c.Points+200; i++ {
			kapacitor.WritePointForRecording(w, mk(i+7000), "n")
		}
		w.Close()
	}
	w, err := ds.StreamWriter()
	if err != nil {
		return &problem{"store-record-error", err.Error()}
	}
	for i := 0; i < c.Points; i++ {
		if err := kapacitor.WritePointForRecording(w, mk(i), "n"); err != nil {
			return &problem{"store-record-error", err.Error()}
		}
	}
	if err := w.Close(); err != nil {
		return &problem{"store-record-error", err.Error()}
	}
	rd, err := ds.StreamReader()
	if err != nil {
		return &problem{"store-read-error", err.Error()}
	}
	col := &streamCol{}
	var rerr error
	leak, pan := kit.Bubble(t, func() {
		rerr = <-kapacitor.ReplayStreamFromIO(clock.Fast(), io.ReadCloser(rd), col, true, "n")
	})
	if pan != nil {
		return &problem{"store-panic", fmt.Sprintf("%s: %v", c, pan)}
	}
	if leak != "" {
		return &problem{"store-goroutine-leak", leak}
	}
	if rerr != nil {
		return &problem{"store-replay-error", fmt.Sprintf("%s: %v", c, rerr)}
	}
	if len(col.pts) != c.Points || col.closed != 1 {
		return &problem{"store-stream-count", fmt.Sprintf("%s: %d points replayed, collector closed %d times", c, len(col.pts), col.closed)}
	}
	for i, p := range col.pts {
		w := mk(i)
		if p.Name() != "m" || p.Database() != "db" || p.RetentionPolicy() != "rp" || !p.Time().Equal(w.Time()) || !sameVal(p.Fields()["f"], w.Fields()["f"]) || p.Tags()["h"] != w.Tags()["h"] {
			return &problem{"store-stream-point", fmt.Sprintf("%s: point %d replayed as %v", c, i, kit.PtOf(p))}
		}
	}
	return nil
}

func storeCases(thorough bool) []StoreCase {
	var r []StoreCase
	maxQ := 13
	if thorough {
		maxQ = 120
	}
	for q := 1; q <= maxQ; q++ {
		for _, counts := range [][]int{{1}, {2}, {0, 1}, {1, 0, 2}} {
			r = append(r, StoreCase{Queries: q, Counts: counts})
		}
	}
	for _, n := range []int{0, 1, 2, 100, 5000} {
		r = append(r, StoreCase{Points: n})
		r = append(r, StoreCase{Points: n, Prior: true})
	}
	for q := 1; q <= 3; q++ {
		for _, counts := range [][]int{{1}, {2}, {0, 1}} {
			r = append(r, StoreCase{Queries: q, Counts: counts, Prior: true})
		}
	}
	return r
}
