package c13

import (
	"fmt"
	"reflect"
	"regexp"
	"sort"
	"strings"
	"time"

	"github.com/influxdata/kapacitor/pipeline"
	"github.com/influxdata/kapacitor/tick/ast"
)

// semCanon describes a pipeline by reflection over the exported properties of its nodes
// (lambda trees included, with function names, literals and operators; source positions,
// comments, parentheses flags and number bases ignored) and the ordered parents of every
// node; it does not depend on node ids or on the lossy pipeline JSON.
func semCanon(p *pipeline.Pipeline) string {
	var nodes []pipeline.Node
	p.Walk(func(n pipeline.Node) error {
		nodes = append(nodes, n)
		return nil
	})
	memo := map[pipeline.Node]string{}
	var desc func(n pipeline.Node, depth int) string
	desc = func(n pipeline.Node, depth int) string {
		if d, ok := memo[n]; ok {
			return d
		}
		if depth > 60 {
			return "deep"
		}
		var ps []string
		for _, par := range n.Parents() {
			ps = append(ps, desc(par, depth+1))
		}
		if _, ok := n.(*pipeline.UnionNode); ok {
			sort.Strings(ps)
		}
		d := dump(reflect.ValueOf(n), 0) + "<-[" + strings.Join(ps, ";") + "]"
		memo[n] = d
		return d
	}
	var all []string
	for _, n := range nodes {
		all = append(all, desc(n, 0))
	}
	sort.Strings(all)
	return strings.Join(all, "\n")
}

var skipFields = map[string]bool{"Comment": true, "Parens": true, "MultiLine": true, "Base": true, "TagDoubleQuotes": true}

var nodeIface = reflect.TypeOf((*pipeline.Node)(nil)).Elem()

func dump(v reflect.Value, depth int) string { return dumpE(v, depth, false) }

func dumpE(v reflect.Value, depth int, embedded bool) string {
	if depth > 25 {
		return "..."
	}
	if !v.IsValid() {
		return "nil"
	}
	switch v.Kind() {
	case reflect.Interface:
		if v.IsNil() {
			return "nil"
		}
		return dump(v.Elem(), depth)
	case reflect.Ptr:
		if v.IsNil() {
			return "nil"
		}
		if v.CanInterface() {
			switch x := v.Interface().(type) {
			case *regexp.Regexp:
				return "re(" + x.String() + ")"
			case *ast.UnaryNode:
				// -<number> is the number
				if x.Operator == ast.TokenMinus {
					switch n := x.Node.(type) {
					case *ast.NumberNode:
						c := *n
						c.Int64, c.Float64 = -c.Int64, -c.Float64
						return dump(reflect.ValueOf(&c), depth)
					case *ast.DurationNode:
						c := *n
						c.Dur = -c.Dur
						return dump(reflect.ValueOf(&c), depth)
					}
				}
			case *ast.NumberNode:
				if x.IsInt {
					return fmt.Sprintf("int(%d)", x.Int64)
				}
				return fmt.Sprintf("float(%v)", x.Float64)
			case *ast.LambdaNode:
				// a lambda whose body is a lambda (var substitution) is that lambda
				if inner, ok := x.Expression.(*ast.LambdaNode); ok {
					return dump(reflect.ValueOf(inner), depth)
				}
			}
			if depth > 0 && !embedded && v.Type().Implements(nodeIface) {
				// a reference to another pipeline node: its type only (the graph is described by the parents)
				return "<node " + v.Type().Elem().Name() + ">"
			}
		}
		return dump(v.Elem(), depth)
	case reflect.Struct:
		if v.CanInterface() {
			switch x := v.Interface().(type) {
			case time.Time:
				return x.String()
			}
		}
		var sb strings.Builder
		sb.WriteString(v.Type().Name() + "{")
		t := v.Type()
		for i := 0; i < v.NumField(); i++ {
			f := t.Field(i)
			if f.PkgPath != "" || skipFields[f.Name] { // unexported (graph links, positions) or presentation only
				continue
			}
			if f.Name == "Literal" && (t.Name() == "DurationNode" || t.Name() == "RegexNode") {
				continue // source text of the literal; Dur / Regex carry the value
			}
			if f.Name == "TripleQuotes" {
				continue
			}
			d := dumpE(v.Field(i), depth+1, f.Anonymous)
			if d == "nil" || d == "[]" || d == `""` || d == "map[]" {
				continue
			}
			sb.WriteString(f.Name + ":" + d + ",")
		}
		sb.WriteString("}")
		return sb.String()
	case reflect.Slice, reflect.Array:
		if v.Len() == 0 {
			return "[]"
		}
		var es []string
		for i := 0; i < v.Len(); i++ {
			es = append(es, dump(v.Index(i), depth+1))
		}
		return "[" + strings.Join(es, ",") + "]"
	case reflect.Map:
		if v.Len() == 0 {
			return "map[]"
		}
		var es []string
		for _, k := range v.MapKeys() {
			es = append(es, dump(k, depth+1)+"="+dump(v.MapIndex(k), depth+1))
		}
		sort.Strings(es)
		return "map[" + strings.Join(es, ",") + "]"
	case reflect.Func, reflect.Chan:
		return "func"
	case reflect.String:
		return fmt.Sprintf("%q", v.String())
	case reflect.Int64:
		if v.Type() == reflect.TypeOf(time.Duration(0)) {
			return "dur(" + time.Duration(v.Int()).String() + ")"
		}
		return fmt.Sprintf("%s(%d)", v.Type().Name(), v.Int())
	}
	if v.CanInterface() {
		return fmt.Sprintf("%s(%v)", v.Type().Name(), v.Interface())
	}
	switch v.Kind() {
	case reflect.Int, reflect.Int8, reflect.Int16, reflect.Int32:
		return fmt.Sprintf("%s(%d)", v.Type().Name(), v.Int())
	case reflect.Bool:
		return fmt.Sprintf("bool(%v)", v.Bool())
	case reflect.Float64, reflect.Float32:
		return fmt.Sprintf("float(%v)", v.Float())
	}
	return v.Kind().String()
}

// semDiffSig: node type and property of the first differing position of two semCanon texts.
func semDiffSig(a, b string) string {
	i := 0
	for i < len(a) && i < len(b) && a[i] == b[i] {
		i++
	}
	pre := a[:i]
	// the enclosing struct name: last "Name{" that is not closed... approximate: last "Node{" occurrence
	typ := "?"
	re := regexp.MustCompile(`([A-Za-z]+Node(Data)?)\{`)
	if m := re.FindAllStringSubmatch(pre, -1); len(m) > 0 {
		typ = m[len(m)-1][1]
	}
	prop := "?"
	j := strings.LastIndexAny(pre, ",{[") + 1
	if m := regexp.MustCompile(`^[A-Za-z0-9]+`).FindString(a[j:]); m != "" {
		prop = m
	}
	return typ + "." + prop
}
