package c12

import (
	"fmt"
	"sort"
	"strings"
	"testing"
	"time"

	"github.com/influxdata/kapacitor"
	"github.com/influxdata/kapacitor/edge"
	"github.com/influxdata/kapacitor/models"
	"github.com/influxdata/kapacitor/zz_verif/kit"
	"github.com/influxdata/kapacitor/zz_verif/rep"
)

// Batch edges: a batch task with two (three) query nodes feeding join and union. The query nodes are fed through the
// task's real BatchCollectors (what the query node does with an InfluxDB answer), one batch at a time, in every
// merge order of the parents' batch sequences.

// BatchIn: one input batch: batch time (tmax, seconds) and the times of its points (seconds, non-decreasing)
type BatchIn struct {
	T int
	P []int
}

func (b BatchIn) String() string { return fmt.Sprintf("{tmax=%d points@%v}", b.T, b.P) }

func batchScript(c Config) string {
	var sb strings.Builder
	n := 2
	if c.Three {
		n = 3
	}
	for i := 0; i < n; i++ {
		fmt.Fprintf(&sb, "var %c = batch|query('SELECT v FROM \"db\".\"rp\".\"%c\"').period(10s).every(10s)\n", 'a'+i, 'a'+i)
	}
	parents, names := "b", "'a', 'b'"
	if c.Three {
		parents, names = "b, c", "'a', 'b', 'c'"
	}
	first := "a"
	if c.Unbuffered {
		// where() forwards a batch message by message: the multi-parent consumer has to re-assemble it
		for i := 0; i < n; i++ {
			fmt.Fprintf(&sb, "var %cw = %c|where(lambda: TRUE)\n", 'a'+i, 'a'+i)
		}
		first, parents = "aw", "bw"
		if c.Three {
			parents = "bw, cw"
		}
	}
	fmt.Fprintf(&sb, "%s|join(%s).as(%s)", first, parents, names)
	if c.TolS > 0 {
		fmt.Fprintf(&sb, ".tolerance(%ds)", c.TolS)
	}
	switch c.Fill {
	case "null":
		sb.WriteString(".fill('null')")
	case "0":
		sb.WriteString(".fill(0.0)")
	}
	sb.WriteString("|log().prefix('J')\n")
	fmt.Fprintf(&sb, "%s|union(%s)|log().prefix('U')\n", first, parents)
	fmt.Fprintf(&sb, "%s|union(%s).rename('r')|log().prefix('R')\n", first, parents)
	return sb.String()
}

func bval(parent, bi, pi int) int64 { return int64(parent*100 + bi*10 + pi) }

func mkBatch(parent, bi int, in BatchIn) edge.BufferedBatchMessage {
	var bps []edge.BatchPointMessage
	for pi, ts := range in.P {
		bps = append(bps, edge.NewBatchPointMessage(models.Fields{"v": bval(parent, bi, pi)}, models.Tags{}, kit.T0.Add(time.Duration(ts)*time.Second)))
	}
	return edge.NewBufferedBatchMessage(
		edge.NewBeginBatchMessage(string(rune('a'+parent)), models.Tags{}, false, kit.T0.Add(time.Duration(in.T)*time.Second), len(bps)),
		bps, edge.NewEndBatchMessage())
}

type boutcome struct {
	join    []string // flattened joined points, sorted
	union   []string // batches in output order
	renamed []string
	errs    []string
}

func fmtBatch(b kit.Bt, withName bool) string {
	var sb strings.Builder
	if withName {
		sb.WriteString(b.Name)
	}
	fmt.Fprintf(&sb, "@%d[", b.TMax.Sub(kit.T0)/time.Second)
	for i, p := range b.Points {
		if i > 0 {
			sb.WriteString(" ")
		}
		fmt.Fprintf(&sb, "%v@%d", p.Fields["v"], p.T.Sub(kit.T0)/time.Second)
	}
	sb.WriteString("]")
	return sb.String()
}

func runBatch(t *testing.T, c Case) (o boutcome, p *problem) {
	leak, pan := kit.Bubble(t, func() {
		env, err := kit.NewEnv("c12")
		if err != nil {
			p = &problem{"internal", err.Error()}
			return
		}
		et, err := env.Start("t", batchScript(c.Cfg), kapacitor.BatchTask, kit.DBRP)
		if err != nil {
			p = &problem{"internal", "start: " + err.Error()}
			env.TM.Close()
			return
		}
		kit.Wait()
		// collector i belongs to the i-th child of the batch node, which need not be the i-th query of the script:
		// the task's own query list (same order) says which measurement each one reads
		raw := env.TM.BatchCollectors("t")
		bqs, err := et.BatchQueries(kit.T0.Add(-time.Minute), kit.T0)
		if err != nil || len(bqs) != len(raw) || len(raw) != len(c.BSeqs) {
			p = &problem{"internal", fmt.Sprintf("%d collectors, %d query lists (%v) for %d parents", len(raw), len(bqs), err, len(c.BSeqs))}
			return
		}
		cols := make([]kapacitor.BatchCollector, len(raw))
		for i, bq := range bqs {
			if len(bq.Queries) == 0 {
				p = &problem{"internal", "no query in the history list"}
				return
			}
			q := bq.Queries[0].String()
			found := -1
			for par := range c.BSeqs {
				if strings.Contains(q, fmt.Sprintf("rp.%c ", 'a'+par)) || strings.Contains(q, fmt.Sprintf("\"rp\".\"%c\"", 'a'+par)) {
					found = par
				}
			}
			if found < 0 || cols[found] != nil {
				p = &problem{"internal", "cannot tell which parent reads: " + q}
				return
			}
			cols[found] = raw[i]
		}
		next := make([]int, len(c.BSeqs))
		for _, par := range c.Order {
			i := next[par]
			next[par]++
			if err := cols[par].CollectBatch(mkBatch(par, i, c.BSeqs[par][i])); err != nil {
				p = &problem{"internal", err.Error()}
				return
			}
			kit.Wait()
		}
		// the parents end (in merge-order-independent sequence: a, b, c)
		for _, col := range cols {
			col.Close()
			kit.Wait()
		}
		env.TM.StopTask("t")
		kit.Wait()
		if err := env.TM.Close(); err != nil {
			p = &problem{"internal", err.Error()}
		}
		kit.Wait()
		if s := env.Diag.Sink("J"); s != nil {
			for _, b := range s.Batches() {
				for _, pt := range b.Points {
					o.join = append(o.join, fmt.Sprintf("n=%s B=%d t=%d g=%q %s", b.Name, b.TMax.Sub(kit.T0)/time.Second, pt.T.Sub(kit.T0)/time.Second, b.Group, kit.FmtFields(pt.Fields)))
				}
			}
		}
		if s := env.Diag.Sink("U"); s != nil {
			for _, b := range s.Batches() {
				o.union = append(o.union, fmtBatch(b, true))
			}
		}
		if s := env.Diag.Sink("R"); s != nil {
			for _, b := range s.Batches() {
				if b.Name != "r" {
					o.errs = append(o.errs, fmt.Sprintf("union().rename('r') emitted a batch named %q", b.Name))
				}
				o.renamed = append(o.renamed, fmtBatch(b, false))
			}
		}
		for _, e := range env.Diag.ErrorsCopy() {
			o.errs = append(o.errs, fmt.Sprintf("%+v", e))
		}
	})
	if pan != nil {
		return o, &problem{"panic", fmt.Sprintf("panic: %v", pan)}
	}
	if leak != "" && p == nil {
		return o, &problem{"goroutine-leak", leak}
	}
	sort.Strings(o.join)
	return
}

// reference: batches are matched per rounded batch time (k-th occurrence per parent); inside a matched set the points
// are matched per rounded point time (k-th occurrence per parent); inner join needs all parents, outer join fills
func refBatchJoin(c Config, bseqs [][]BatchIn) []string {
	tol := time.Duration(c.TolS) * time.Second
	rnd := func(s int) time.Time { return kit.T0.Add(time.Duration(s) * time.Second).Round(tol) }
	type bref struct {
		par, bi int
		in      BatchIn
	}
	byT := map[time.Time][][]bref{}
	for par, s := range bseqs {
		for bi, b := range s {
			tm := rnd(b.T)
			if byT[tm] == nil {
				byT[tm] = make([][]bref, len(bseqs))
			}
			byT[tm][par] = append(byT[tm][par], bref{par, bi, b})
		}
	}
	var out []string
	for tm, lists := range byT {
		max := 0
		for _, l := range lists {
			if len(l) > max {
				max = len(l)
			}
		}
		for k := 0; k < max; k++ {
			// the k-th set of batches
			type pref struct{ v int64 }
			byP := map[time.Time][][]pref{}
			name := "" // the joined batch is named after the left-most parent present
			for par, l := range lists {
				if k >= len(l) {
					continue
				}
				if name == "" {
					name = string(rune('a' + par))
				}
				for pi, ts := range l[k].in.P {
					ptm := rnd(ts)
					if byP[ptm] == nil {
						byP[ptm] = make([][]pref, len(bseqs))
					}
					byP[ptm][par] = append(byP[ptm][par], pref{bval(par, l[k].bi, pi)})
				}
			}
			for ptm, pl := range byP {
				pmax := 0
				for _, l := range pl {
					if len(l) > pmax {
						pmax = len(l)
					}
				}
				for j := 0; j < pmax; j++ {
					fields := map[string]any{}
					complete := true
					for par, l := range pl {
						key := string(rune('a'+par)) + ".v"
						if j < len(l) {
							fields[key] = l[j].v
						} else {
							complete = false
							switch c.Fill {
							case "null":
								fields[key] = nil
							case "0":
								fields[key] = float64(0)
							}
						}
					}
					if !complete && c.Fill == "" {
						continue
					}
					out = append(out, fmt.Sprintf("n=%s B=%d t=%d g=%q %s", name, tm.Sub(kit.T0)/time.Second, ptm.Sub(kit.T0)/time.Second, "", kit.FmtFields(fields)))
				}
			}
		}
	}
	sort.Strings(out)
	return out
}

func checkBatchUnion(c Case, o boutcome) *problem {
	total := 0
	for _, s := range c.BSeqs {
		total += len(s)
	}
	if len(o.union) != total {
		return &problem{"union-count", fmt.Sprintf("union emitted %d batches for %d inputs: %v", len(o.union), total, o.union)}
	}
	// per parent: the emitted subsequence is the input sequence
	for par, s := range c.BSeqs {
		name := string(rune('a' + par))
		var got, want []string
		for _, u := range o.union {
			if strings.HasPrefix(u, name+"@") {
				got = append(got, u)
			}
		}
		for bi, b := range s {
			want = append(want, fmtBatch(kit.BtOf(mkBatch(par, bi, b)), true))
		}
		if strings.Join(got, " ") != strings.Join(want, " ") {
			return &problem{"union-parent-order", fmt.Sprintf("union output %v: parent %s sent %v", o.union, name, want)}
		}
	}
	last := -1 << 30
	for _, u := range o.union {
		var ts int
		fmt.Sscanf(u[strings.Index(u, "@")+1:], "%d", &ts)
		if ts < last {
			return &problem{"union-time-order", fmt.Sprintf("union output %v is not in non-decreasing time order", o.union)}
		}
		last = ts
	}
	// the renaming union sees the same arrivals: same batches in the same order, all named r; the plain union's
	// output (checked above by name) shows that renaming did not touch the shared messages
	var plain []string
	for _, u := range o.union {
		plain = append(plain, u[strings.Index(u, "@"):])
	}
	if strings.Join(plain, " ") != strings.Join(o.renamed, " ") {
		return &problem{"union-rename", fmt.Sprintf("union().rename('r') emitted %v, the plain union %v", o.renamed, o.union)}
	}
	return nil
}

// all batch sequences of one parent: up to maxB batches with non-decreasing tmax over tmaxs; point time sequences
// up to maxP points over ptimes (for sequences of more than one batch only the reduced set, unless full)
func batchSeqs(maxB int, tmaxs []int, maxP int, ptimes []int, full bool) [][]BatchIn {
	pseqs := seqsUpTo(maxP, ptimes)
	isReduced := func(p []int) bool {
		switch len(p) {
		case 0:
			return true
		case 1:
			return p[0] == ptimes[0]
		case 2:
			return len(ptimes) > 1 && p[0] == ptimes[0] && p[1] == ptimes[1]
		}
		return false
	}
	var out [][]BatchIn
	var rec func(pre []BatchIn, start int)
	rec = func(pre []BatchIn, start int) {
		keep := full || len(pre) < 2
		if !keep {
			keep = true
			for _, b := range pre {
				if !isReduced(b.P) {
					keep = false
				}
			}
		}
		if keep {
			out = append(out, append([]BatchIn(nil), pre...))
		}
		if len(pre) == maxB {
			return
		}
		for i := start; i < len(tmaxs); i++ {
			for _, p := range pseqs {
				rec(append(pre, BatchIn{tmaxs[i], p}), i)
			}
		}
	}
	rec(nil, 0)
	return out
}

func batchCfgKey(c Config) string {
	k := "batch"
	if c.Three {
		k += "+3parents"
	}
	if c.Fill != "" {
		k += "+fill"
	}
	if c.TolS > 0 {
		k += "+tolerance"
	}
	if c.Unbuffered {
		k += "+unbuffered"
	}
	return k
}

func checkBatchInput(t *testing.T, cfg Config, bseqs [][]BatchIn, r *rep.R) (prob *problem) {
	lens := make([]int, len(bseqs))
	total := 0
	for i, s := range bseqs {
		lens[i] = len(s)
		total += len(s)
	}
	var first *boutcome
	var firstOrder []int
	want := refBatchJoin(cfg, bseqs)
	mergeOrders(lens, func(order []int) {
		if prob != nil {
			return
		}
		c := Case{Cfg: cfg, BSeqs: bseqs, Order: order}
		o, p := runBatch(t, c)
		if r != nil {
			r.Add("evaluations", 1)
			r.Add("batch_runs", 1)
			r.Add("transitions", int64(total))
		}
		if p != nil {
			prob = p
			prob.msg += fmt.Sprintf(" (batch sequences %v, merge order %v)", bseqs, order)
			return
		}
		if len(o.errs) > 0 {
			prob = &problem{"node-error", fmt.Sprintf("%v (batch sequences %v, merge order %v)", o.errs, bseqs, order)}
			return
		}
		if first == nil {
			first, firstOrder = &o, order
		} else if strings.Join(first.join, "|") != strings.Join(o.join, "|") {
			prob = &problem{"join-depends-on-interleaving", fmt.Sprintf("batch sequences %v: merge order %v gives %v but merge order %v gives %v", bseqs, firstOrder, first.join, order, o.join)}
			return
		}
		if strings.Join(want, "|") != strings.Join(o.join, "|") {
			prob = &problem{"join-result", fmt.Sprintf("batch sequences %v merge order %v: joined %v, reference %v", bseqs, order, o.join, want)}
			return
		}
		if p := checkBatchUnion(c, o); p != nil {
			prob = p
			prob.msg += fmt.Sprintf(" (batch sequences %v, merge order %v)", bseqs, order)
		}
	})
	if r != nil {
		r.AddDistinct("states", 1)
		if first != nil && len(first.join) > 0 {
			r.AddDistinct("nontrivial", 1)
		}
	}
	return
}

func batchPart(t *testing.T, r *rep.R, n *int) {
	cfgs := []Config{{}, {Fill: "null"}, {Fill: "0"}, {TolS: 3}, {TolS: 3, Fill: "null"}, {Three: true, Fill: "null"}, {Unbuffered: true}, {Unbuffered: true, Fill: "null"}}
	for _, cfg := range cfgs {
		tmaxs, ptimes := []int{10, 20}, []int{1, 2}
		if cfg.TolS == 3 {
			// 10s rounds to 9s, 11s and 13s to 12s; 1s to 0s, 2s and 4s to 3s
			tmaxs, ptimes = []int{10, 11, 13}, []int{1, 2, 4}
		}
		maxB, maxP := 2, 2
		full := rep.Thorough()
		if cfg.Three {
			maxB, maxP, full = 1, 2, false
			if rep.Thorough() {
				maxB = 2
			}
		}
		if cfg.TolS == 3 && !rep.Thorough() {
			maxP = 1
		}
		seqs := batchSeqs(maxB, tmaxs, maxP, ptimes, full)
		for _, a := range seqs {
			for _, b := range seqs {
				var ins [][][]BatchIn
				if cfg.Three {
					for _, c := range seqs {
						ins = append(ins, [][]BatchIn{a, b, c})
					}
				} else {
					ins = append(ins, [][]BatchIn{a, b})
				}
				for _, in := range ins {
					*n++
					if !rep.Mine(*n) {
						continue
					}
					if r.Expired() {
						r.Cap("deadline")
						return
					}
					rep.Current(Case{Cfg: cfg, BSeqs: in})
					if p := checkBatchInput(t, cfg, in, r); p != nil {
						r.Violation(p.kind+":"+batchCfgKey(cfg), p.msg, Case{Cfg: cfg, BSeqs: in})
					}
					if r.WantSample() && *n%900 == 5 {
						r.Sample(map[string]any{"script": batchScript(cfg), "parent_batch_sequences": fmt.Sprint(in)})
					}
				}
			}
		}
	}
}
