package c03

import (
	"fmt"
	"github.com/influxdata/kapacitor/edge"
	"strconv"
	"strings"
	"testing"
	"time"

	"github.com/influxdata/kapacitor/zz_verif/kit"
	"github.com/influxdata/kapacitor/zz_verif/rep"
)

// Config of one window() node. Seconds.
type Config struct {
	Period, Every int
	Align, Fill   bool
	PeriodCount   int
	EveryCount    int
}

func (c Config) script() string {
	var sb strings.Builder
	sb.WriteString("stream|from().measurement('m').groupBy('g')|window()")
	if c.PeriodCount > 0 {
		fmt.Fprintf(&sb, ".periodCount(%d).everyCount(%d)", c.PeriodCount, c.EveryCount)
	} else {
		fmt.Fprintf(&sb, ".period(%ds).every(%ds)", c.Period, c.Every)
	}
	if c.Align {
		sb.WriteString(".align()")
	}
	if c.Fill {
		sb.WriteString(".fillPeriod()")
	}
	sb.WriteString("|log().prefix('W')")
	return sb.String()
}

// Case: one group's timestamp sequence under one configuration.
type Case struct {
	Cfg   Config
	Phase int   // offset of the first timestamp from T0, seconds
	Gaps  []int // gap before point i (i>=1), seconds; len = npoints-1
}

func (c Case) times() []time.Time {
	ts := make([]time.Time, 0, len(c.Gaps)+1)
	t := kit.T0.Add(time.Duration(c.Phase) * time.Second)
	ts = append(ts, t)
	for _, g := range c.Gaps {
		t = t.Add(time.Duration(g) * time.Second)
		ts = append(ts, t)
	}
	return ts
}

type problem struct{ kind, msg string }

// oracle state per case
type ostate struct {
	c        Case
	ts       []time.Time
	seen     int // batches consumed so far
	lastT    time.Time
	lastTrig time.Time
	emitted  bool
	batches  []kit.Bt
	probs    []problem
	wrapped  bool
	nEmit    int
	absKeys  []string
}

func sec(d int) time.Duration { return time.Duration(d) * time.Second }

func isMultiple(t time.Time, every time.Duration) bool {
	if every == 0 {
		return true
	}
	return t.Truncate(every).Equal(t)
}

// expected content for end time T at step k (0-based index of the triggering point)
func expectTime(ts []time.Time, k int, T time.Time, period time.Duration) []int {
	var r []int
	lo := T.Add(-period)
	for i := 0; i < k; i++ {
		if !ts[i].Before(lo) && ts[i].Before(T) {
			r = append(r, i)
		}
	}
	return r
}

func idxOf(b kit.Bt) ([]int, error) {
	var r []int
	for _, p := range b.Points {
		v, ok := p.Fields["i"].(int64)
		if !ok {
			return nil, fmt.Errorf("point without int field i: %v", p.Fields)
		}
		r = append(r, int(v))
	}
	return r, nil
}

func eqInts(a, b []int) bool {
	if len(a) != len(b) {
		return false
	}
	for i := range a {
		if a[i] != b[i] {
			return false
		}
	}
	return true
}

func (o *ostate) fail(kind, f string, a ...any) {
	o.probs = append(o.probs, problem{kind, fmt.Sprintf(f, a...)})
}

// step is called after point k was processed to quiescence; nb are the batches the
// group's sink received since the previous step.
func (o *ostate) step(k int, nb []kit.Bt, gtag string) {
	cfg := o.c.Cfg
	tk := o.ts[k]
	if len(nb) > 1 {
		o.fail("multi-emit", "point %d produced %d windows", k, len(nb))
		return
	}
	var b *kit.Bt
	if len(nb) == 1 {
		b = &nb[0]
		o.nEmit++
		if b.Name != "m" || b.Tags["g"] != gtag || len(b.Tags) != 1 || b.Group != "g="+gtag {
			o.fail("meta", "window has name=%q tags=%v group=%q, want m / g=%s", b.Name, b.Tags, b.Group, gtag)
		}
		for _, p := range b.Points {
			if p.Tags["g"] != gtag {
				o.fail("foreign-point", "window of group %s contains point with tags %v", gtag, p.Tags)
			}
		}
	}
	switch {
	case cfg.PeriodCount > 0:
		first := cfg.EveryCount
		if cfg.Fill {
			first = cfg.PeriodCount
		}
		n := k + 1
		want := n >= first && (n-first)%cfg.EveryCount == 0
		if want != (b != nil) {
			o.fail("count-schedule", "after point #%d (periodCount=%d everyCount=%d fill=%v): emitted=%v want %v", n, cfg.PeriodCount, cfg.EveryCount, cfg.Fill, b != nil, want)
			return
		}
		if b == nil {
			return
		}
		got, err := idxOf(*b)
		if err != nil {
			o.fail("content", "%v", err)
			return
		}
		var exp []int
		m := cfg.PeriodCount
		if n < m {
			m = n
		}
		for i := n - m; i < n; i++ {
			exp = append(exp, i)
		}
		if !eqInts(got, exp) {
			o.fail("count-content", "count window after point #%d holds %v want %v", n, got, exp)
		}
		for j, i := range got {
			if i >= 0 && i < len(o.ts) && !b.Points[j].T.Equal(o.ts[i]) {
				o.fail("content", "point %d has time %v want %v", i, b.Points[j].T, o.ts[i])
			}
		}
	case cfg.Every == 0:
		// every point emits (t-period, t]
		if b == nil {
			o.fail("every0-schedule", "point %d (t=%v) did not emit a window with every=0", k, tk.Sub(kit.T0))
			return
		}
		if !b.TMax.Equal(tk) {
			o.fail("every0-end", "window end %v want time of triggering point %v", b.TMax.Sub(kit.T0), tk.Sub(kit.T0))
		}
		var exp []int
		lo := tk.Add(-sec(cfg.Period))
		for i := 0; i <= k; i++ {
			if o.ts[i].After(lo) && !o.ts[i].After(tk) {
				exp = append(exp, i)
			}
		}
		got, err := idxOf(*b)
		if err != nil {
			o.fail("content", "%v", err)
			return
		}
		if !eqInts(got, exp) {
			o.fail("every0-content", "window at point %d holds %v want %v (times %v)", k, got, exp, o.rel())
		}
	default:
		every, period := sec(cfg.Every), sec(cfg.Period)
		t0 := o.ts[0]
		var mandatory bool
		if !o.emitted {
			// first window
			switch {
			case !cfg.Align && !cfg.Fill:
				mandatory = !tk.Before(t0.Add(every))
			case !cfg.Align && cfg.Fill:
				mandatory = !tk.Before(t0.Add(period))
			case cfg.Align && !cfg.Fill:
				mandatory = !tk.Before(t0.Add(every))
			default:
				mandatory = !tk.Before(t0.Add(period).Add(every))
			}
		} else {
			mandatory = !tk.Before(o.lastTrig.Add(every))
		}
		if b == nil {
			if mandatory {
				o.fail("missed-emit", "point %d (t=%v) reached a full 'every' step of data time but no window was emitted (last trigger %v, times %v)", k, tk.Sub(kit.T0), o.lastTrig.Sub(kit.T0), o.rel())
			}
			return
		}
		T := b.TMax
		if T.After(tk) {
			o.fail("early-emit", "window with end %v emitted at point time %v", T.Sub(kit.T0), tk.Sub(kit.T0))
		}
		if cfg.Align && !isMultiple(T, every) {
			o.fail("align", "aligned window end %v is not a multiple of every=%v", T, every)
		}
		if !o.emitted {
			switch {
			case !cfg.Align && !cfg.Fill:
				if !T.Equal(t0.Add(every)) {
					o.fail("first-end", "first window end %v want first point + every = %v", T.Sub(kit.T0), t0.Add(every).Sub(kit.T0))
				}
			case !cfg.Align && cfg.Fill:
				if !T.Equal(t0.Add(period)) {
					o.fail("first-end", "first window end (fillPeriod) %v want first point + period = %v", T.Sub(kit.T0), t0.Add(period).Sub(kit.T0))
				}
			case cfg.Align && !cfg.Fill:
				if !T.After(t0) || T.After(t0.Add(every)) {
					o.fail("first-end", "first aligned window end %v not in (t0, t0+every] (t0=%v)", T.Sub(kit.T0), t0.Sub(kit.T0))
				}
			default:
				if T.Before(t0.Add(period)) || T.After(t0.Add(period).Add(every)) {
					o.fail("first-end", "first aligned+fillPeriod window end %v not in [t0+period, t0+period+every] (t0=%v)", T.Sub(kit.T0), t0.Sub(kit.T0))
				}
			}
		} else {
			if T.Before(o.lastT.Add(every)) {
				o.fail("too-frequent", "window end %v follows previous end %v by less than every=%v", T.Sub(kit.T0), o.lastT.Sub(kit.T0), every)
			}
		}
		got, err := idxOf(*b)
		if err != nil {
			o.fail("content", "%v", err)
			return
		}
		exp := expectTime(o.ts, k, T, period)
		if !eqInts(got, exp) {
			o.fail("content", "window end=%v period=%v emitted at point %d holds points %v want %v (times %v)", T.Sub(kit.T0), period, k, got, exp, o.rel())
		}
		for j, i := range got {
			if i >= 0 && i < len(o.ts) && !b.Points[j].T.Equal(o.ts[i]) {
				o.fail("content", "point %d has time %v want %v", i, b.Points[j].T, o.ts[i])
			}
		}
		o.emitted = true
		o.lastT = T
		o.lastTrig = tk
	}
}

func (o *ostate) rel() []int {
	r := make([]int, len(o.ts))
	for i, t := range o.ts {
		r[i] = int(t.Sub(kit.T0) / time.Second)
	}
	return r
}

// runChunk runs all cases (same Config) as groups of one real task.
func runChunk(t *testing.T, cfg Config, cases []Case) ([]*ostate, error) {
	states := make([]*ostate, len(cases))
	for i, c := range cases {
		states[i] = &ostate{c: c, ts: c.times()}
	}
	var runErr error
	leak, pan := kit.Bubble(t, func() {
		env, err := kit.NewEnv("c03")
		if err != nil {
			runErr = err
			return
		}
		pending := make([][]kit.Bt, len(cases))
		env.Diag.OnBatch = func(prefix string, b kit.Bt) {
			i, err := strconv.Atoi(b.Tags["g"])
			if err != nil || i < 0 || i >= len(cases) {
				runErr = fmt.Errorf("batch with unknown group tag %v", b.Tags)
				return
			}
			pending[i] = append(pending[i], b)
		}
		// every emitted window is looked at again at the end of the run: it must read as it did when emitted
		type kept struct {
			then string
			raw  edge.BufferedBatchMessage
		}
		var keptAll []kept
		env.Diag.OnBatchRaw = func(prefix string, b kit.Bt, raw edge.BufferedBatchMessage) {
			keptAll = append(keptAll, kept{b.String(), raw})
		}
		defer func() {
			for _, k := range keptAll {
				if now := kit.BtOf(k.raw).String(); now != k.then {
					if i, err := strconv.Atoi(k.raw.Tags()["g"]); err == nil && i >= 0 && i < len(states) {
						states[i].probs = append(states[i].probs, problem{"emitted-window-changed", fmt.Sprintf("a window emitted as %s reads %s at the end of the run (the emitted message shares memory with the node's buffer)", k.then, now)})
					}
				}
			}
		}()
		if _, err := env.StartStream("t", cfg.script()); err != nil {
			runErr = err
			return
		}
		maxLen := 0
		for _, s := range states {
			if len(s.ts) > maxLen {
				maxLen = len(s.ts)
			}
		}
		for k := 0; k < maxLen; k++ {
			for i, s := range states {
				if k >= len(s.ts) {
					continue
				}
				g := strconv.Itoa(i)
				p := kit.MkPoint("m", map[string]string{"g": g}, map[string]any{"i": int64(k)}, s.ts[k])
				if err := env.Write("db", "rp", p); err != nil {
					runErr = err
					return
				}
			}
			kit.Wait()
			for i, s := range states {
				if k >= len(s.ts) {
					continue
				}
				s.step(k, pending[i], strconv.Itoa(i))
				pending[i] = nil
			}
		}
		if err := env.TM.Close(); err != nil {
			runErr = err
		}
		kit.Wait()
		for i := range pending {
			if len(pending[i]) > 0 {
				states[i].fail("emit-on-close", "window emitted when the task was closed: %v", pending[i])
			}
		}
		for _, e := range env.Diag.ErrorsCopy() {
			runErr = fmt.Errorf("node error: %+v", e)
		}
	})
	if pan != nil {
		return states, fmt.Errorf("panic: %v", pan)
	}
	if leak != "" {
		return states, fmt.Errorf("goroutine leak: %s", leak)
	}
	return states, runErr
}

func configs(thorough bool) []Config {
	var r []Config
	for _, p := range []int{2, 3, 5} {
		for _, e := range []int{0, 1, 2, 3, 5, 7} {
			for _, al := range []bool{false, true} {
				for _, fi := range []bool{false, true} {
					if e == 0 && (al || fi) {
						continue
					}
					// (the node documentation says fillPeriod "only applies if the period is greater than the every
					// value"; the property's quantifier has no such restriction and the implementation delays the first
					// window to a full period for every combination: all combinations are enumerated)
					r = append(r, Config{Period: p, Every: e, Align: al, Fill: fi})
				}
			}
		}
	}
	for _, pc := range []int{1, 2, 3} {
		for _, ec := range []int{1, 2, 3, 5} {
			for _, fi := range []bool{false, true} {
				if fi && pc <= ec {
					continue
				}
				r = append(r, Config{PeriodCount: pc, EveryCount: ec, Fill: fi})
			}
		}
	}
	return r
}

var gapAlphabet = []int{0, 1, 2, 3, 7, 11}

func TestCheck(t *testing.T) {
	r := rep.New("C03", "model_checking",
		"every window() configuration (period x every x align x fillPeriod; periodCount x everyCount) x every non-decreasing timestamp sequence of fixed length over the gap alphabet {0,1,2,3,7,11}s x first-point phase; each sequence is one group of a real stream task (groups interleaved round-robin), a |log() node directly below window() is the sink; after every point the harness waits for quiescence (synctest) and compares what was emitted with a []point reference. states = distinct (config, reference window state) pairs; transitions = points fed; non-trivial = sequences in which at least two windows were emitted and at least one point was evicted")
	defer r.Write()
	r.Assumption("groups are independent (checked by C06); single-parent pipelines are Kahn networks, so one execution per input covers all goroutine schedules")
	r.Assumption("the exact recurrence of later window end times is not asserted: an emission is mandatory once data time reached (time of the previous triggering point + every), permitted only if its end is >= previous end + every and <= the triggering point's time; contents are exact for the reported end time")

	if rep.ReplayPath() != "" {
		var rr struct{ Ring []string }
		if err := rep.LoadReplay(&rr); err == nil && len(rr.Ring) > 0 {
			ringReplay(r, rr.Ring)
			r.Add("evaluations", 1)
			return
		}
		var c Case
		if err := rep.LoadReplay(&c); err != nil {
			t.Fatal(err)
		}
		sts, err := runChunk(t, c.Cfg, []Case{c})
		if err != nil {
			r.Violation("internal", err.Error(), c)
			return
		}
		for _, p := range sts[0].probs {
			r.Violation(key(c.Cfg, p.kind), p.msg, c)
		}
		r.Add("evaluations", 1)
		return
	}

	L := 6
	if rep.Thorough() {
		L = 8
	}
	if i, _ := rep.Shard(); i == 0 {
		if rep.Thorough() {
			ringBFS(r, 6, 40)
		} else {
			ringBFS(r, 4, 30)
		}
	}
	const chunkSize = 2048
	chunkNo := 0
	for _, cfg := range configs(rep.Thorough()) {
		phases := []int{0, 1, 2}
		if cfg.PeriodCount > 0 {
			phases = []int{0}
		} else if cfg.Every > 3 {
			phases = []int{0, 1, 2, 3, 4, 5, 6}[:cfg.Every]
		}
		var chunk []Case
		flush := func() {
			if len(chunk) == 0 {
				return
			}
			mine := rep.Mine(chunkNo)
			chunkNo++
			if !mine {
				chunk = chunk[:0]
				return
			}
			if r.Expired() {
				r.Cap("deadline")
				chunk = chunk[:0]
				return
			}
			sts, err := runChunk(t, cfg, chunk)
			if err != nil {
				r.Violation("run-error:"+modeOf(cfg), err.Error(), chunk[0])
			}
			for _, s := range sts {
				r.Add("evaluations", 1)
				r.Add("transitions", int64(len(s.ts)))
				for _, p := range s.probs {
					r.Violation(key(cfg, p.kind), fmt.Sprintf("%s | cfg=%+v phase=%d gaps=%v", p.msg, s.c.Cfg, s.c.Phase, s.c.Gaps), s.c)
				}
				if s.nEmit >= 2 {
					r.Distinct("nontrivial", fmt.Sprintf("%+v", s.c))
				}
				r.Distinct("outcomes", fmt.Sprintf("%v|%d", cfg, s.nEmit))
			}
			if r.WantSample() && len(sts) > 0 {
				s := sts[len(sts)/2]
				r.Sample(map[string]any{"script": cfg.script(), "times_s": s.rel(), "windows_emitted": s.nEmit})
			}
			chunk = chunk[:0]
		}
		n := L - 1
		if cfg.PeriodCount > 0 {
			// for count windows timestamps are irrelevant: one sequence, longer
			c := Case{Cfg: cfg, Gaps: make([]int, 15)}
			for i := range c.Gaps {
				c.Gaps[i] = i % 3
			}
			chunk = append(chunk, c)
			flush()
			continue
		}
		idx := make([]int, n)
		for _, ph := range phases {
			for i := range idx {
				idx[i] = 0
			}
			for {
				gaps := make([]int, n)
				for i, a := range idx {
					gaps[i] = gapAlphabet[a]
				}
				chunk = append(chunk, Case{Cfg: cfg, Phase: ph, Gaps: gaps})
				if len(chunk) == chunkSize {
					flush()
				}
				// next
				j := n - 1
				for j >= 0 {
					idx[j]++
					if idx[j] < len(gapAlphabet) {
						break
					}
					idx[j] = 0
					j--
				}
				if j < 0 {
					break
				}
			}
		}
		flush()
	}
	r.Note("sequence_length", L)
	r.Note("configurations", len(configs(rep.Thorough())))
}

func modeOf(c Config) string {
	switch {
	case c.PeriodCount > 0:
		return "count"
	case c.Every == 0:
		return "every0"
	}
	return "time"
}

func key(c Config, kind string) string { return kind + ":" + modeOf(c) }
