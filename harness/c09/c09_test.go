package c09

import (
	"fmt"
	"os"
	"sort"
	"strings"
	"testing"
	"time"

	"github.com/influxdata/kapacitor/alert"
	"github.com/influxdata/kapacitor/zz_verif/rep"
	"github.com/influxdata/kapacitor/zz_verif/vsched"
	"testing/synctest"
)

// ---------------------------------------------------------------- part A: topic state, sequential, BFS to closure

type Op struct {
	Kind  string // collect update delete
	ID    string
	Level alert.Level
}

func (o Op) String() string {
	if o.Kind == "delete" {
		return "deleteTopic"
	}
	return fmt.Sprintf("%s(%s,%s)", o.Kind, o.ID, o.Level)
}

var idsA = []string{"a", "b", "c"}

func opsA() []Op {
	var r []Op
	for _, k := range []string{"collect", "update"} {
		for _, id := range idsA {
			for l := alert.OK; l <= alert.Critical; l++ {
				r = append(r, Op{k, id, l})
			}
		}
	}
	r = append(r, Op{Kind: "delete"})
	return r
}

type rec struct {
	evs []alert.Event
}

func (r *rec) Handle(e alert.Event) { r.evs = append(r.evs, e) }

type modelA struct {
	levels map[string]alert.Level
	exists bool
	log    []string // expected handler log: id:level<-prev
}

func (m *modelA) apply(o Op) {
	switch o.Kind {
	case "delete":
		m.levels = map[string]alert.Level{}
		m.exists = false
	case "collect", "update":
		prev, had := m.levels[o.ID]
		if !had {
			prev = alert.OK
		}
		m.levels[o.ID] = o.Level
		m.exists = true
		if o.Kind == "collect" {
			m.log = append(m.log, fmt.Sprintf("%s:%s<-%s", o.ID, o.Level, prev))
		}
	}
}

type problem struct{ kind, msg string }

// runA executes the history on fresh Topics inside the current bubble and checks after the last op.
// It returns the canonical key (stored order + levels).
func runA(hist []Op) (key string, p *problem) {
	tp := alert.NewTopics(0)
	defer tp.Close()
	h := &rec{}
	tp.RegisterHandler("t", h)
	m := &modelA{levels: map[string]alert.Level{}}
	uLevels := map[string]alert.Level{}
	t0 := time.Date(2000, 1, 1, 0, 0, 0, 0, time.UTC)
	for i, o := range hist {
		switch o.Kind {
		case "collect":
			if err := tp.Collect(alert.Event{Topic: "t", State: alert.EventState{ID: o.ID, Level: o.Level, Time: t0.Add(time.Duration(i) * time.Second)}}); err != nil {
				return "", &problem{"collect-error", err.Error()}
			}
		case "update":
			tp.UpdateEvent("t", alert.EventState{ID: o.ID, Level: o.Level})
			// a second topic that nothing but UpdateEvent ever touches (what a restarting alert node does to a topic
			// that has no handler and no stored state yet): the first update creates it
			tp.UpdateEvent("u", alert.EventState{ID: o.ID, Level: o.Level})
			uLevels[o.ID] = o.Level
		case "delete":
			tp.DeleteTopic("t")
			// handlers of a deleted topic are gone: re-register the recorder so later collects are observed
			tp.RegisterHandler("t", h)
			m.exists = true
			m.apply(o)
			m.exists = true
			continue
		}
		m.apply(o)
	}
	synctest.Wait()
	// queries
	max := alert.OK
	for _, l := range m.levels {
		if l > max {
			max = l
		}
	}
	ts := tp.TopicState("", alert.OK)
	got, ok := ts["t"]
	if !ok {
		return "", &problem{"topic-missing", fmt.Sprintf("TopicState does not list topic t after %v", hist)}
	}
	if got.Level != max {
		return "", &problem{"max-level", fmt.Sprintf("topic level %s, maximum of the current event states is %s (states %v, stored order %v) after %v", got.Level, max, m.levels, tp.VerifSortedIDs("t"), hist)}
	}
	for min := alert.OK; min <= alert.Critical; min++ {
		_, listed := tp.TopicState("", min)["t"]
		if listed != (max >= min) {
			return "", &problem{"topic-min-level", fmt.Sprintf("TopicState(minLevel=%s) lists t=%v but its level is %s after %v", min, listed, max, hist)}
		}
		t, _ := tp.Topic("t")
		es := t.EventStates(min)
		want := map[string]alert.Level{}
		for id, l := range m.levels {
			if l >= min {
				want[id] = l
			}
		}
		if len(es) != len(want) {
			return "", &problem{"event-states", fmt.Sprintf("EventStates(%s) = %v, want %v (stored order %v) after %v", min, levelsOf(es), want, tp.VerifSortedIDs("t"), hist)}
		}
		for id, l := range want {
			if e, ok := es[id]; !ok || e.Level != l {
				return "", &problem{"event-states", fmt.Sprintf("EventStates(%s) = %v, want %v after %v", min, levelsOf(es), want, hist)}
			}
		}
	}
	for _, id := range idsA {
		e, ok := tp.EventState("t", id)
		l, want := m.levels[id]
		if ok != want || (ok && e.Level != l) {
			return "", &problem{"event-state", fmt.Sprintf("EventState(%s) = (%s,%v) want (%s,%v) after %v", id, e.Level, ok, l, want, hist)}
		}
	}
	if len(uLevels) > 0 {
		umax := alert.OK
		for _, l := range uLevels {
			if l > umax {
				umax = l
			}
		}
		us, ok := tp.TopicState("", alert.OK)["u"]
		if !ok || us.Level != umax {
			return "", &problem{"updated-topic-state", fmt.Sprintf("topic u, only ever touched by UpdateEvent, is listed=%v with level %s, want level %s after %v", ok, us.Level, umax, hist)}
		}
		for id, l := range uLevels {
			if e, ok := tp.EventState("u", id); !ok || e.Level != l {
				return "", &problem{"updated-topic-state", fmt.Sprintf("EventState(u,%s) = (%s,%v) want %s after %v", id, e.Level, ok, l, hist)}
			}
		}
	}
	var log []string
	for _, e := range h.evs {
		log = append(log, fmt.Sprintf("%s:%s<-%s", e.State.ID, e.State.Level, e.PreviousState().Level))
	}
	if strings.Join(log, " ") != strings.Join(m.log, " ") {
		return "", &problem{"handler-log", fmt.Sprintf("handler saw %v, want %v after %v", log, m.log, hist)}
	}
	var ks []string
	for _, id := range tp.VerifSortedIDs("t") {
		ks = append(ks, fmt.Sprintf("%s=%d", id, m.levels[id]))
	}
	return strings.Join(ks, ","), nil
}

func levelsOf(es map[string]alert.EventState) map[string]alert.Level {
	m := map[string]alert.Level{}
	for k, v := range es {
		m[k] = v.Level
	}
	return m
}

func bubbleA(t *testing.T, hist []Op) (key string, p *problem) {
	defer func() {
		if r := recover(); r != nil {
			p = &problem{"panic", fmt.Sprintf("panic: %v after %v", r, hist)}
		}
	}()
	synctest.Test(t, func(t *testing.T) {
		key, p = runA(hist)
	})
	return
}

// ---------------------------------------------------------------- part C: concurrent publishers under the controlled scheduler

type ConcCase struct {
	Pubs  [][]Op // per publisher goroutine
	Fresh bool   // the topic does not exist before the publishers start (no handler registered)
}

func concHarness(c ConcCase) vsched.Harness {
	return vsched.Harness{
		Cfg: vsched.Sched{MaxSteps: 5000},
		Setup: func() (func(), func(*vsched.Exec)) {
			tp := alert.NewTopics(0)
			h := &rec{}
			if !c.Fresh {
				tp.RegisterHandler("t", h)
			}
			t0 := time.Date(2000, 1, 1, 0, 0, 0, 0, time.UTC)
			body := func() {
				done := make(chan struct{}, len(c.Pubs))
				for pi, ops := range c.Pubs {
					pi, ops := pi, ops
					vsched.Go(func() {
						for i, o := range ops {
							tp.Collect(alert.Event{Topic: "t", State: alert.EventState{ID: o.ID, Level: o.Level, Message: fmt.Sprintf("p%d.%d", pi, i), Time: t0}})
						}
						vsched.Point()
						done <- struct{}{}
					})
				}
				for range c.Pubs {
					vsched.Point()
					<-done
				}
			}
			check := func(x *vsched.Exec) {
				synctest.Wait()
				defer tp.Close()
				if x.S.Verdict != "" {
					x.Key, x.Problem = "conc-"+x.S.Verdict, fmt.Sprintf("schedule ended with %s: %s", x.S.Verdict, x.S.Detail)
					return
				}
				var log []string
				last := map[string]alert.Level{}
				seen := map[string]bool{}
				for _, e := range h.evs {
					log = append(log, fmt.Sprintf("%s:%s<-%s(%s)", e.State.ID, e.State.Level, e.PreviousState().Level, e.State.Message))
				}
				x.Outcome = strings.Join(log, " ")
				total := 0
				for _, ops := range c.Pubs {
					total += len(ops)
				}
				if c.Fresh {
					// no handler: state only. Every id collected must have a state (the last level its publisher
					// collected: ids are not shared between publishers in these cases), Collected = total
					lastOf := map[string]alert.Level{}
					for _, ops := range c.Pubs {
						for _, o := range ops {
							lastOf[o.ID] = o.Level
						}
					}
					var st []string
					max := alert.OK
					for id, l := range lastOf {
						es, ok := tp.EventState("t", id)
						st = append(st, fmt.Sprintf("%s=%s/%v", id, es.Level, ok))
						if !ok || es.Level != l {
							x.Key, x.Problem = "conc-fresh-topic-state", fmt.Sprintf("after concurrent first collects on a new topic, event %s has state (%s, present=%v), want %s", id, es.Level, ok, l)
							return
						}
						if l > max {
							max = l
						}
					}
					sort.Strings(st)
					x.Outcome = strings.Join(st, " ")
					ts := tp.TopicState("", alert.OK)["t"]
					if ts.Level != max || ts.Collected != int64(total) {
						x.Key, x.Problem = "conc-fresh-topic-state", fmt.Sprintf("topic reports level %s collected %d, want %s and %d", ts.Level, ts.Collected, max, total)
					}
					return
				}
				if len(h.evs) != total {
					x.Key, x.Problem = "conc-delivery", fmt.Sprintf("%d events collected, handler saw %d: %v", total, len(h.evs), log)
					return
				}
				for _, e := range h.evs {
					if seen[e.State.Message] {
						x.Key, x.Problem = "conc-duplicate", fmt.Sprintf("event %s handled twice: %v", e.State.Message, log)
						return
					}
					seen[e.State.Message] = true
					prev, had := last[e.State.ID]
					if !had {
						prev = alert.OK
					}
					if e.PreviousState().Level != prev {
						x.Key, x.Problem = "conc-previous-level", fmt.Sprintf("handler order %v: event %s has previous level %s but the preceding event of id %s handed to the handler had level %s", log, e.State.Message, e.PreviousState().Level, e.State.ID, prev)
						return
					}
					last[e.State.ID] = e.State.Level
				}
				for id, l := range last {
					if es, ok := tp.EventState("t", id); !ok || es.Level != l {
						x.Key, x.Problem = "conc-final-state", fmt.Sprintf("handler order %v: the last event handed to the handler for id %s has level %s but the topic reports %s", log, id, l, es.Level)
						return
					}
				}
				max := alert.OK
				for id := range last {
					if es, _ := tp.EventState("t", id); es.Level > max {
						max = es.Level
					}
				}
				if got := tp.TopicState("", alert.OK)["t"].Level; got != max {
					x.Key, x.Problem = "conc-max-level", fmt.Sprintf("topic level %s but maximum of its event states %s", got, max)
				}
			}
			return body, check
		},
	}
}

func concCases() []ConcCase {
	mk := func(id string, l alert.Level) Op { return Op{"collect", id, l} }
	return []ConcCase{
		{Fresh: true, Pubs: [][]Op{{mk("a", alert.Critical)}, {mk("b", alert.Warning)}}},
		{Fresh: true, Pubs: [][]Op{{mk("a", alert.Critical), mk("a", alert.OK)}, {mk("b", alert.Warning)}, {mk("c", alert.Info)}}},
		{Pubs: [][]Op{{mk("a", alert.Critical)}, {mk("a", alert.Warning)}}},
		{Pubs: [][]Op{{mk("a", alert.Critical), mk("a", alert.OK)}, {mk("a", alert.Warning)}}},
		{Pubs: [][]Op{{mk("a", alert.Critical)}, {mk("b", alert.Warning)}, {mk("a", alert.OK)}}},
		{Pubs: [][]Op{{mk("a", alert.Critical), mk("b", alert.Info)}, {mk("b", alert.Warning), mk("a", alert.OK)}}},
	}
}

type Replay struct {
	HistAgg []BOp
	HistB   []BOp
	Hist  []Op
	Conc  *ConcCase
	Picks []int
}

func TestCheck(t *testing.T) {
	r := rep.New("C09", "model_checking",
		"topic state and handler delivery: (A) explicit-state BFS to closure over histories of collect/updateEvent (3 ids x 4 levels) and deleteTopic on the real alert.Topics (state = history, successor = replay on a fresh instance + 1 op, key = stored sorted order + levels); after every transition TopicState(pattern,minLevel), EventStates(minLevel), EventState and the handler log (levels, previous levels, FIFO) are compared with a map model. (C) 2-3 publisher goroutines collecting colliding events on one topic under the controlled scheduler (instrumented package alert, every interleaving and select rotation up to the deviation bound): delivery exactly once, per-id previous-level chain in handler order, final state = last handled event, topic level = maximum")
	defer r.Write()
	r.Assumption("the scheduler explores sequentially consistent interleavings at synchronisation operations (locks, channel operations, selects); plain-memory races are not explored")

	if n := vsched.FreeRuns(); n > 0 {
		for _, c := range concCases() {
			r.Add("race_pass_runs", int64(vsched.FreeRun(t, concHarness(c), n)))
		}
		return
	}
	if rep.ReplayPath() != "" {
		var rp Replay
		if err := rep.LoadReplay(&rp); err != nil {
			t.Fatal(err)
		}
		if len(rp.HistAgg) > 0 {
			if p := bubbleAgg(t, rp.HistAgg); p != nil {
				r.Violation("Agg-"+p.kind, p.msg, rp)
			}
			r.Add("evaluations", 1)
			return
		}
		if len(rp.HistB) > 0 {
			if p := bubbleB(t, rp.HistB); p != nil {
				r.Violation("B-"+p.kind, p.msg, rp)
			}
			r.Add("evaluations", 1)
			return
		}
		if rp.Conc != nil {
			x := vsched.RunOne(t, concHarness(*rp.Conc), rp.Picks)
			if x.Problem != "" {
				r.Violation(x.Key, x.Problem, rp)
			}
		} else {
			if _, p := bubbleA(t, rp.Hist); p != nil {
				r.Violation(p.kind, p.msg, rp)
			}
		}
		r.Add("evaluations", 1)
		return
	}
	shard, nshards := rep.Shard()
	// part A
	ops := opsA()
	seen := map[string]bool{"": true}
	frontier := [][]Op{{}}
	depth, tn := 0, 0
	for len(frontier) > 0 && depth < 12 {
		var next [][]Op
		for _, hist := range frontier {
			for _, op := range ops {
				h := append(append([]Op(nil), hist...), op)
				tn++
				// every shard runs the search (keys come from the real object); only the owner reports
				key, p := bubbleA(t, h)
				if tn%nshards == shard {
					r.Add("evaluations", 1)
					r.Add("transitions", 1)
					if p != nil {
						r.Violation(p.kind, p.msg, Replay{Hist: h})
					} else {
						r.AddDistinct("nontrivial", 1)
					}
				}
				if p != nil {
					continue
				}
				if !seen[key] {
					seen[key] = true
					next = append(next, h)
					if shard == 0 && len(seen)%60 == 7 {
						r.Sample(map[string]any{"history": fmt.Sprint(h), "stored_order_and_levels": key})
					}
				}
			}
		}
		frontier = next
		depth++
		if r.Expired() {
			r.Cap("deadline in part A")
			break
		}
	}
	if shard == 0 {
		r.Add("states", int64(len(seen)))
	}
	r.SetMax("bfs_depth", int64(depth))
	r.Note("part_A_closed", len(frontier) == 0)

	// part B: handler specs of the alert service (match expressions, update, rename, publish), all histories up to the depth
	depthB := 3
	if rep.Thorough() {
		depthB = 4
	}
	bops := opsB(rep.Thorough())
	nb := 0
	var recB func(hist []BOp)
	recB = func(hist []BOp) {
		if len(hist) > 0 {
			nb++
			if nb%nshards == shard {
				if r.Expired() {
					r.Cap("deadline in part B")
					return
				}
				// only histories that end in a collect can show a new handler log entry
				if hist[len(hist)-1].Kind == "collect" {
					p := bubbleB(t, hist)
					r.Add("evaluations", 1)
					r.Add("transitions", int64(len(hist)))
					r.Add("partB_histories", 1)
					r.AddDistinct("nontrivial", 1)
					if p != nil {
						r.Violation("B-"+p.kind, p.msg, Replay{HistB: hist})
					}
					if shard == 0 && nb%4000 == 1 {
						r.Sample(map[string]any{"partB_history": fmt.Sprint(hist)})
					}
				}
			}
		}
		if len(hist) == depthB {
			return
		}
		for _, o := range bops {
			// prune: thorough depth 4 only extends histories that contain at most one non-collect suffix... (none: full)
			recB(append(append([]BOp(nil), hist...), o))
		}
	}
	recB(nil)

	// part B2: the aggregate handler over several intervals: all histories over collect x tick up to the depth that end in a tick
	depthAgg := 5
	if rep.Thorough() {
		depthAgg = 6
	}
	aops := aggOps()
	na := 0
	var recAgg func(hist []BOp)
	recAgg = func(hist []BOp) {
		if len(hist) > 0 && hist[len(hist)-1].Kind == "tick" {
			na++
			if na%nshards == shard && !r.Expired() {
				p := bubbleAgg(t, hist)
				r.Add("evaluations", 1)
				r.Add("transitions", int64(len(hist)))
				r.Add("aggregate_histories", 1)
				if p != nil {
					r.Violation("Agg-"+p.kind, p.msg, Replay{HistAgg: hist})
				}
			}
		}
		if len(hist) == depthAgg {
			return
		}
		for _, o := range aops {
			if o.Kind == "tick" && len(hist) > 0 && hist[len(hist)-1].Kind == "tick" {
				continue // two ticks in a row: the second interval is empty
			}
			recAgg(append(append([]BOp(nil), hist...), o))
		}
	}
	recAgg(nil)

	// part C
	bound := 2
	if rep.Thorough() {
		bound = 3
	}
	var deadline time.Time
	if d := os.Getenv("VERIF_DEADLINE_S"); d != "" {
		var f float64
		fmt.Sscan(d, &f)
		if f > 0 {
			deadline = time.Now().Add(time.Duration(f * float64(time.Second)))
		}
	}
	for ci, c := range concCases() {
		c := c
		st := vsched.Explore(t, concHarness(c), bound, shard, nshards, deadline, 0, func(f vsched.Found) {
			r.Violation(f.Key, f.Problem+" | schedule "+strings.Join(f.Trace, " "), Replay{Conc: &c, Picks: f.Picks})
		})
		r.Add("evaluations", int64(st.Executions))
		r.Add("schedules", int64(st.Executions))
		r.Add("transitions", int64(st.Transitions))
		r.Add("replay_divergences", int64(st.Diverged))
		r.SetMax("choices_per_schedule", int64(st.MaxChoices))
		r.SetMax("deviation_bound_completed", int64(st.BoundDone))
		var outs []string
		for o := range st.Outcomes {
			outs = append(outs, o)
			r.Distinct("conc_outcomes", fmt.Sprintf("%d|%s", ci, o))
		}
		sort.Strings(outs)
		if st.Capped {
			r.Cap(fmt.Sprintf("concurrent case %d capped", ci))
		}
		if shard == 0 && len(outs) > 0 {
			r.Sample(map[string]any{"publishers": fmt.Sprint(c.Pubs), "schedules_in_this_shard": st.Executions, "distinct_handler_orders": len(outs), "one_order": outs[0]})
		}
	}
}
