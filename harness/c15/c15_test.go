package c15

import (
	"encoding/json"
	"errors"
	"fmt"
	"os"
	"path"
	"path/filepath"
	"sort"
	"strings"
	"testing"

	"github.com/influxdata/kapacitor/services/storage"
	"github.com/influxdata/kapacitor/zz_verif/rep"
	bolt "go.etcd.io/bbolt"
)

// ---------------------------------------------------------------- objects and model

type obj struct {
	ID  string `json:"id"`
	Sec string `json:"sec"`
	P   int    `json:"p"`
}

func (o *obj) ObjectID() string               { return o.ID }
func (o *obj) MarshalBinary() ([]byte, error) { return json.Marshal(o) }
func (o *obj) UnmarshalBinary(b []byte) error { return json.Unmarshal(b, o) }

var ids = []string{"a", "ab", "b"}
var secs = []string{"x", "y"}

type Op struct {
	Kind string // create put replace delete rebuild
	O    obj
}

func (o Op) String() string {
	switch o.Kind {
	case "rebuild":
		return "rebuild"
	case "delete":
		return "delete(" + o.O.ID + ")"
	}
	return fmt.Sprintf("%s(%s,%s,%d)", o.Kind, o.O.ID, o.O.Sec, o.O.P)
}

func allOps() []Op {
	var r []Op
	for _, k := range []string{"create", "put", "replace"} {
		for _, id := range ids {
			for _, s := range secs {
				for p := 0; p < 2; p++ {
					r = append(r, Op{k, obj{id, s, p}})
				}
			}
		}
	}
	for _, id := range ids {
		r = append(r, Op{"delete", obj{ID: id}})
	}
	r = append(r, Op{Kind: "rebuild"})
	return r
}

type model map[string]obj

func (m model) key() string {
	var ks []string
	for _, id := range ids {
		if o, ok := m[id]; ok {
			ks = append(ks, fmt.Sprintf("%s:%s%d", id, o.Sec, o.P))
		}
	}
	return strings.Join(ks, ",")
}

func (m model) copy() model {
	c := model{}
	for k, v := range m {
		c[k] = v
	}
	return c
}

// apply returns the expected error class: "", "exists", "noexist"
func (m model) apply(op Op) string {
	switch op.Kind {
	case "create":
		if _, ok := m[op.O.ID]; ok {
			return "exists"
		}
		m[op.O.ID] = op.O
	case "put":
		m[op.O.ID] = op.O
	case "replace":
		if _, ok := m[op.O.ID]; !ok {
			return "noexist"
		}
		m[op.O.ID] = op.O
	case "delete":
		delete(m, op.O.ID)
	}
	return ""
}

// expected raw dump of the namespace
func (m model) dump() map[string]string {
	d := map[string]string{}
	for id, o := range m {
		b, _ := json.Marshal(&o)
		d["/p/data/"+id] = string(b)
		d["/p/indexes/id/"+id] = id
		d["/p/indexes/sec/"+o.Sec+"/"+id] = id
	}
	return d
}

// ---------------------------------------------------------------- real store

type env struct {
	path string
	db   *bolt.DB
	st   *storage.IndexedStore
	raw  storage.Interface
	ft   *faultStore
}

func tmpDir() string {
	d := os.Getenv("VERIF_TMP")
	if fi, err := os.Stat("/dev/shm"); err == nil && fi.IsDir() {
		d = filepath.Join("/dev/shm", fmt.Sprintf("verif-c15-%d", os.Getpid()))
	}
	if d == "" {
		d = os.TempDir()
	}
	os.MkdirAll(d, 0o755)
	return d
}

var seq int

func config() storage.IndexedStoreConfig {
	c := storage.DefaultIndexedStoreConfig("p", func() storage.BinaryObject { return new(obj) })
	c.Indexes = append(c.Indexes, storage.Index{Name: "sec", ValueFunc: func(o storage.BinaryObject) (string, error) {
		return o.(*obj).Sec, nil
	}})
	return c
}

func openEnv(p string) (*env, error) {
	if p == "" {
		seq++
		p = filepath.Join(tmpDir(), fmt.Sprintf("c15-%d.db", seq))
		os.Remove(p)
	}
	db, err := bolt.Open(p, 0600, &bolt.Options{NoSync: true, NoFreelistSync: true})
	if err != nil {
		return nil, err
	}
	e := &env{path: p, db: db}
	e.raw = storage.NewBolt(db, []byte("ns"))
	e.ft = &faultStore{Interface: e.raw, failAt: -1}
	e.st, err = storage.NewIndexedStore(e.ft, config())
	if err != nil {
		return nil, err
	}
	return e, nil
}

func (e *env) close(rm bool) {
	e.db.Close()
	if rm {
		os.Remove(e.path)
	}
}

func (e *env) dump() (map[string]string, error) {
	d := map[string]string{}
	err := e.raw.View(func(tx storage.ReadOnlyTx) error {
		kvs, err := tx.List("")
		if err != nil {
			return err
		}
		for _, kv := range kvs {
			d[kv.Key] = string(kv.Value)
		}
		return nil
	})
	return d, err
}

func (e *env) apply(op Op) error {
	o := op.O
	switch op.Kind {
	case "create":
		return e.st.Create(&o)
	case "put":
		return e.st.Put(&o)
	case "replace":
		return e.st.Replace(&o)
	case "delete":
		return e.st.Delete(o.ID)
	case "rebuild":
		return e.st.Rebuild()
	}
	return errors.New("bad op")
}

// fault injection: the k-th Put/Delete inside an Update fails
type faultStore struct {
	storage.Interface
	failAt       int // -1 = never
	writes       int // writes seen in the last Update
	commitFailed bool
}

var errInjected = errors.New("injected write failure")

func (f *faultStore) Update(fn func(storage.Tx) error) error {
	f.writes = 0
	// through storage.DoUpdate with a transaction whose Commit can be made to fail: failAt == number of writes
	// of the transaction places the fault at the commit itself
	if op, ok := f.Interface.(storage.TxOperator); ok {
		return storage.DoUpdate(faultOp{op, f}, func(tx storage.Tx) error {
			return fn(&faultTx{Tx: tx, f: f})
		})
	}
	return f.Interface.Update(func(tx storage.Tx) error {
		return fn(&faultTx{Tx: tx, f: f})
	})
}

type faultOp struct {
	storage.TxOperator
	f *faultStore
}

func (o faultOp) BeginTx() (storage.Tx, error) {
	tx, err := o.TxOperator.BeginTx()
	if err != nil {
		return tx, err
	}
	return &commitTx{Tx: tx, f: o.f}, nil
}

type commitTx struct {
	storage.Tx
	f *faultStore
}

func (t *commitTx) Commit() error {
	if t.f.failAt >= 0 && t.f.writes == t.f.failAt {
		t.f.commitFailed = true
		t.Tx.Rollback()
		return errInjected
	}
	return t.Tx.Commit()
}

type faultTx struct {
	storage.Tx
	f *faultStore
}

func (t *faultTx) Put(key string, value []byte) error {
	t.f.writes++
	if t.f.writes-1 == t.f.failAt {
		return errInjected
	}
	return t.Tx.Put(key, value)
}
func (t *faultTx) Delete(key string) error {
	t.f.writes++
	if t.f.writes-1 == t.f.failAt {
		return errInjected
	}
	return t.Tx.Delete(key)
}

// ---------------------------------------------------------------- oracle

func eqDump(a, b map[string]string) string {
	var diffs []string
	for k, v := range a {
		if w, ok := b[k]; !ok {
			diffs = append(diffs, "unexpected key "+k+"="+v)
		} else if w != v {
			diffs = append(diffs, fmt.Sprintf("key %s=%s want %s", k, v, w))
		}
	}
	for k, v := range b {
		if _, ok := a[k]; !ok {
			diffs = append(diffs, "missing key "+k+"="+v)
		}
	}
	sort.Strings(diffs)
	return strings.Join(diffs, "; ")
}

var patterns = []string{"", "a*", "?", "*b", "[", "b"}
var offsets = []int{0, 1, 2, 5}
var limits = []int{-1, 0, 1, 2, 10}

func refList(m model, index, pattern string, offset, limit int, reverse bool) ([]obj, bool) {
	var l []obj
	for _, o := range m {
		l = append(l, o)
	}
	sort.Slice(l, func(i, j int) bool {
		if index == "sec" && l[i].Sec != l[j].Sec {
			return l[i].Sec < l[j].Sec
		}
		return l[i].ID < l[j].ID
	})
	if reverse {
		for i, j := 0, len(l)-1; i < j; i, j = i+1, j-1 {
			l[i], l[j] = l[j], l[i]
		}
	}
	var f []obj
	malformed := false
	for _, o := range l {
		if pattern != "" {
			ok, err := path.Match(pattern, o.ID)
			if err != nil {
				malformed = true
			}
			if !ok {
				continue
			}
		}
		f = append(f, o)
	}
	if offset >= len(f) {
		return nil, malformed
	}
	f = f[offset:]
	if limit >= 0 && limit < len(f) {
		f = f[:limit]
	}
	return f, malformed
}

type problem struct{ kind, msg string }

func checkQueries(e *env, m model) *problem {
	for _, id := range ids {
		o, err := e.st.Get(id)
		want, ok := m[id]
		switch {
		case ok && err != nil:
			return &problem{"get", fmt.Sprintf("Get(%s) failed: %v, want %+v", id, err, want)}
		case ok && *(o.(*obj)) != want:
			return &problem{"get", fmt.Sprintf("Get(%s) = %+v, want %+v", id, *(o.(*obj)), want)}
		case !ok && err != storage.ErrNoObjectExists:
			return &problem{"get", fmt.Sprintf("Get(%s) of an absent object returned (%v, %v)", id, o, err)}
		}
	}
	for _, index := range []string{"id", "sec"} {
		for _, pat := range patterns {
			for _, off := range offsets {
				for _, lim := range limits {
					for _, rev := range []bool{false, true} {
						var got []storage.BinaryObject
						var err error
						if rev {
							got, err = e.st.ReverseList(index, pat, off, lim)
						} else {
							got, err = e.st.List(index, pat, off, lim)
						}
						want, malformed := refList(m, index, pat, off, lim, rev)
						if malformed {
							// malformed glob: an error or an empty result are both acceptable
							if err == nil && len(got) != 0 {
								return &problem{"list-malformed-pattern", fmt.Sprintf("List(%s, %q) with a malformed pattern returned %d objects", index, pat, len(got))}
							}
							continue
						}
						if err != nil {
							return &problem{"list-error", fmt.Sprintf("List(%s,%q,%d,%d,rev=%v) failed: %v", index, pat, off, lim, rev, err)}
						}
						var g []obj
						for _, o := range got {
							g = append(g, *(o.(*obj)))
						}
						if fmt.Sprint(g) != fmt.Sprint(want) {
							kind := "list"
							if lim < 0 {
								kind = "list-no-limit"
							}
							return &problem{kind, fmt.Sprintf("List(index=%s, pattern=%q, offset=%d, limit=%d, reverse=%v) = %v, want %v (store %s)", index, pat, off, lim, rev, g, want, m.key())}
						}
					}
				}
			}
		}
	}
	return nil
}

// replayTo builds a fresh store and applies the history; returns env and model.
func replayTo(hist []Op) (*env, model, error) {
	e, err := openEnv("")
	if err != nil {
		return nil, nil, err
	}
	m := model{}
	for _, op := range hist {
		m.apply(op)
		e.apply(op)
	}
	return e, m, nil
}

type Replay struct {
	Hist   []Op
	FailAt int
}

// step executes hist on a fresh store and checks the last operation (optionally with a fault at write k).
func step(hist []Op, failAt int, deep bool) (*problem, model, int) {
	e, m, err := replayTo(hist[:len(hist)-1])
	if err != nil {
		return &problem{"internal", err.Error()}, nil, 0
	}
	defer func() { e.close(true) }()
	op := hist[len(hist)-1]
	before, _ := e.dump()
	if d := eqDump(before, m.dump()); d != "" {
		return &problem{"dump", fmt.Sprintf("raw contents differ from model before %v: %s", op, d)}, nil, 0
	}
	e.ft.failAt = failAt
	e.ft.commitFailed = false
	err = e.apply(op)
	writes := e.ft.writes
	e.ft.failAt = -1
	if failAt >= 0 {
		if failAt > writes || (failAt == writes && !e.ft.commitFailed) {
			return nil, nil, writes // no such write / no commit happened
		}
		if err == nil {
			return &problem{"fault-swallowed", fmt.Sprintf("%v succeeded although its write #%d failed (history %v)", op, failAt, hist)}, nil, writes
		}
		after, _ := e.dump()
		if d := eqDump(after, before); d != "" {
			return &problem{"fault-trace", fmt.Sprintf("%v failed at write #%d but left a trace: %s (history %v)", op, failAt, d, hist)}, nil, writes
		}
		if p := checkQueries(e, m); p != nil {
			p.msg += fmt.Sprintf(" after failed %v (history %v)", op, hist)
			return p, nil, writes
		}
		return nil, nil, writes
	}
	want := m.copy().apply(op)
	switch {
	case want == "exists" && err != storage.ErrObjectExists:
		return &problem{"result", fmt.Sprintf("%v on an existing object returned %v (history %v)", op, err, hist)}, nil, writes
	case want == "noexist" && err != storage.ErrNoObjectExists:
		return &problem{"result", fmt.Sprintf("%v on a missing object returned %v (history %v)", op, err, hist)}, nil, writes
	case want == "" && err != nil:
		return &problem{"result", fmt.Sprintf("%v failed: %v (history %v)", op, err, hist)}, nil, writes
	}
	m.apply(op)
	after, _ := e.dump()
	if d := eqDump(after, m.dump()); d != "" {
		return &problem{"dump", fmt.Sprintf("after %v raw contents differ from model: %s (history %v)", op, d, hist)}, nil, writes
	}
	if deep {
		if p := checkQueries(e, m); p != nil {
			p.msg += fmt.Sprintf(" (history %v)", hist)
			return p, nil, writes
		}
		// reopen
		pth := e.path
		e.db.Close()
		e2, err := openEnv(pth)
		if err != nil {
			return &problem{"reopen", err.Error()}, nil, writes
		}
		*e = *e2
		re, _ := e.dump()
		if d := eqDump(re, m.dump()); d != "" {
			return &problem{"reopen", fmt.Sprintf("after reopen raw contents differ: %s (history %v)", d, hist)}, nil, writes
		}
		if p := checkQueries(e, m); p != nil {
			p.msg += fmt.Sprintf(" after reopen (history %v)", hist)
			return p, nil, writes
		}
	}
	return nil, m, writes
}

func TestCheck(t *testing.T) {
	r := rep.New("C15", "model_checking",
		"indexed store over a real Bolt file: breadth-first search to closure over operation histories (create/put/replace of 12 objects = 3 ids {a,ab,b} x 2 secondary index values x 2 payloads, delete, rebuild); a state is the history reaching it, successors are built by replaying the history on a fresh Bolt file plus one operation; state key = model contents. After every transition: result code, raw key/value dump (data + index entries, bijection), Get of every id, List/ReverseList for every (index, pattern, offset, limit), reopen of the file; and for every transition every placement of a failing Put/Delete inside the transaction (operation must fail and leave no trace). non-trivial = transitions that replace an object with a different index value or delete one")
	defer r.Write()
	defer os.RemoveAll(tmpDir())
	r.Assumption("bbolt commit atomicity and durability are trusted (NoSync for speed); torn pages are out of scope")
	r.Assumption("the unique index is the ID index; two objects with the same value in a unique secondary index are a caller error and not enumerated")
	r.Assumption("a malformed glob pattern may yield an error or an empty list")

	if rep.ReplayPath() != "" {
		var rp Replay
		if err := rep.LoadReplay(&rp); err != nil {
			t.Fatal(err)
		}
		if p, _, _ := step(rp.Hist, rp.FailAt, true); p != nil {
			r.Violation(p.kind, p.msg, rp)
		}
		r.Add("evaluations", 1)
		return
	}
	ops := allOps()
	type node struct{ hist []Op }
	seen := map[string]bool{"": true}
	frontier := []node{{}}
	depth := 0
	tn := 0
	maxDepth := 12
	for len(frontier) > 0 && depth < maxDepth {
		var next []node
		for _, n := range frontier {
			for _, op := range ops {
				hist := append(append([]Op(nil), n.hist...), op)
				// model-only successor computation (cheap) to drive the search identically in every shard
				m := model{}
				for _, h := range hist {
					m.apply(h)
				}
				k := m.key()
				isNew := !seen[k]
				if isNew {
					seen[k] = true
					next = append(next, node{hist})
				}
				tn++
				if !rep.Mine(tn) {
					continue
				}
				if r.Expired() {
					r.Cap("deadline")
					continue
				}
				p, _, writes := step(hist, -1, true)
				r.Add("evaluations", 1)
				r.Add("transitions", 1)
				if p != nil {
					r.Violation(p.kind, p.msg, Replay{hist, -1})
					continue
				}
				if op.Kind == "delete" || op.Kind == "replace" || op.Kind == "put" {
					r.AddDistinct("nontrivial", 1)
				}
				for f := 0; f <= writes; f++ { // f == writes: the commit fails
					pf, _, _ := step(hist, f, false)
					r.Add("evaluations", 1)
					r.Add("fault_placements", 1)
					if pf != nil {
						r.Violation(pf.kind, pf.msg, Replay{hist, f})
					}
				}
				if r.WantSample() && tn%400 == 7 {
					r.Sample(map[string]any{"history": fmt.Sprint(hist), "state": k, "writes_in_last_tx": writes})
				}
			}
		}
		frontier = next
		depth++
	}
	if i, _ := rep.Shard(); i == 0 {
		r.Add("states", int64(len(seen)))
	}
	r.SetMax("depth", int64(depth))
	if len(frontier) > 0 {
		r.Cap(fmt.Sprintf("BFS stopped at depth %d", depth))
	}
	r.Note("closed", len(frontier) == 0)
}
