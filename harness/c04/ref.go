package c04

// Independent reference interpreter for TICKscript lambda expressions, written from
// the language documentation (typed operators, no int/float coercion in arithmetic,
// short-circuit AND/OR, errors for mismatches / missing / arithmetic faults).
// It works directly on the AST and keeps no caches: every evaluation starts from
// the tree, so its result cannot depend on earlier scopes (except through the
// explicit state of count(), sigma(), spread()).

import (
	"math"
	"regexp"
	"strconv"
	"strings"
	"time"

	"github.com/influxdata/influxql"
	"github.com/influxdata/kapacitor/tick/ast"
)

type ekind int

const (
	eNone  ekind = iota
	eType        // detectable from the types of the leaves alone: mismatch, missing, undefined, bad signature
	eValue       // depends on values: division by zero, bad conversion, substring bounds
)

type absent struct{}

// refState: state of the stateful functions of one (expression, group).
type refState struct {
	count   int64
	sN      float64
	sMean   float64
	sM2     float64
	spMin   float64
	spMax   float64
	spInit  bool
	lenient bool // set when either outcome is acceptable for this evaluation
	noRef   bool // set when the reference declines to define the outcome at all
}

func newRefState() *refState { return &refState{} }

type tkind int

const (
	tInvalid tkind = iota
	tInt
	tFloat
	tString
	tBool
	tDuration
	tRegex
	tTime
	tMissing
)

func kindOf(v any) tkind {
	switch v.(type) {
	case int64:
		return tInt
	case float64:
		return tFloat
	case string:
		return tString
	case bool:
		return tBool
	case time.Duration:
		return tDuration
	case *regexp.Regexp:
		return tRegex
	case time.Time:
		return tTime
	case *ast.Missing:
		return tMissing
	}
	return tInvalid
}

// typeOf computes the static type of n for the given scope (types of the leaves only),
// or eType. It never looks at values and never touches function state.
func typeOf(n ast.Node, sc map[string]any) (tkind, ekind) {
	switch n := n.(type) {
	case *ast.NumberNode:
		if n.IsInt {
			return tInt, eNone
		}
		return tFloat, eNone
	case *ast.DurationNode:
		return tDuration, eNone
	case *ast.StringNode:
		return tString, eNone
	case *ast.BoolNode:
		return tBool, eNone
	case *ast.RegexNode:
		return tRegex, eNone
	case *ast.ReferenceNode:
		v, ok := sc[n.Reference]
		if !ok {
			return tInvalid, eType
		}
		k := kindOf(v)
		if k == tInvalid {
			return tInvalid, eType
		}
		return k, eNone
	case *ast.LambdaNode:
		return typeOf(n.Expression, sc)
	case *ast.UnaryNode:
		t, e := typeOf(n.Node, sc)
		if e != eNone {
			return tInvalid, e
		}
		switch n.Operator {
		case ast.TokenMinus:
			if t == tInt || t == tFloat || t == tDuration {
				return t, eNone
			}
		case ast.TokenNot:
			if t == tBool {
				return tBool, eNone
			}
		}
		return tInvalid, eType
	case *ast.BinaryNode:
		l, e := typeOf(n.Left, sc)
		if e != eNone {
			return tInvalid, e
		}
		r, e := typeOf(n.Right, sc)
		if e != eNone {
			return tInvalid, e
		}
		t := binType(n.Operator, l, r)
		if t == tInvalid {
			return tInvalid, eType
		}
		return t, eNone
	case *ast.FunctionNode:
		var ts []tkind
		for _, a := range n.Args {
			t, e := typeOf(a, sc)
			if e != eNone {
				return tInvalid, e
			}
			ts = append(ts, t)
		}
		t := funcType(n.Func, ts)
		if t == tInvalid {
			return tInvalid, eType
		}
		return t, eNone
	}
	return tInvalid, eType
}

func isNum(t tkind) bool { return t == tInt || t == tFloat }

// binType: result type of "l op r", tInvalid if the operator is not defined on the pair.
func binType(op ast.TokenType, l, r tkind) tkind {
	switch op {
	case ast.TokenAnd, ast.TokenOr:
		if l == tBool && r == tBool {
			return tBool
		}
	case ast.TokenEqual, ast.TokenNotEqual:
		if (l == tBool && r == tBool) || (isNum(l) && isNum(r)) || (l == tString && r == tString) || (l == tDuration && r == tDuration) {
			return tBool
		}
	case ast.TokenLess, ast.TokenLessEqual, ast.TokenGreater, ast.TokenGreaterEqual:
		if (isNum(l) && isNum(r)) || (l == tString && r == tString) || (l == tDuration && r == tDuration) {
			return tBool
		}
	case ast.TokenRegexEqual, ast.TokenRegexNotEqual:
		if l == tString && r == tRegex {
			return tBool
		}
	case ast.TokenPlus:
		if l == r && (l == tInt || l == tFloat || l == tString || l == tDuration) {
			return l
		}
	case ast.TokenMinus:
		if l == r && (l == tInt || l == tFloat || l == tDuration) {
			return l
		}
	case ast.TokenMult:
		if l == r && (l == tInt || l == tFloat) {
			return l
		}
		if (l == tDuration && isNum(r)) || (isNum(l) && r == tDuration) {
			return tDuration
		}
	case ast.TokenDiv:
		if l == r && (l == tInt || l == tFloat) {
			return l
		}
		if l == tDuration && isNum(r) {
			return tDuration
		}
		if l == tDuration && r == tDuration {
			return tInt
		}
	case ast.TokenMod:
		if l == tInt && r == tInt {
			return tInt
		}
	}
	return tInvalid
}

var math1 = map[string]func(float64) float64{
	"abs": math.Abs, "acos": math.Acos, "acosh": math.Acosh, "asin": math.Asin, "asinh": math.Asinh,
	"atan": math.Atan, "atanh": math.Atanh, "cbrt": math.Cbrt, "ceil": math.Ceil, "cos": math.Cos,
	"cosh": math.Cosh, "erf": math.Erf, "erfc": math.Erfc, "exp": math.Exp, "exp2": math.Exp2,
	"expm1": math.Expm1, "floor": math.Floor, "gamma": math.Gamma, "j0": math.J0, "j1": math.J1,
	"log": math.Log, "log10": math.Log10, "log1p": math.Log1p, "log2": math.Log2, "logb": math.Logb,
	"sin": math.Sin, "sinh": math.Sinh, "sqrt": math.Sqrt, "tan": math.Tan, "tanh": math.Tanh,
	"trunc": math.Trunc, "y0": math.Y0, "y1": math.Y1,
}
var math2 = map[string]func(float64, float64) float64{
	"atan2": math.Atan2, "hypot": math.Hypot, "max": math.Max, "min": math.Min, "mod": math.Mod, "pow": math.Pow,
}
var str2bool = map[string]func(string, string) bool{
	"strContains": strings.Contains, "strContainsAny": strings.ContainsAny, "strHasPrefix": strings.HasPrefix, "strHasSuffix": strings.HasSuffix,
}
var str2int = map[string]func(string, string) int{
	"strCount": strings.Count, "strIndex": strings.Index, "strIndexAny": strings.IndexAny, "strLastIndex": strings.LastIndex, "strLastIndexAny": strings.LastIndexAny,
}
var str2str = map[string]func(string, string) string{
	"strTrim": strings.Trim, "strTrimLeft": strings.TrimLeft, "strTrimPrefix": strings.TrimPrefix, "strTrimRight": strings.TrimRight, "strTrimSuffix": strings.TrimSuffix,
}
var str1str = map[string]func(string) string{
	"strToLower": strings.ToLower, "strToUpper": strings.ToUpper, "strTrimSpace": strings.TrimSpace,
}
var timeFns = map[string]func(time.Time) int64{
	"unixNano": func(t time.Time) int64 { return t.UnixNano() },
	"minute":   func(t time.Time) int64 { return int64(t.Minute()) },
	"hour":     func(t time.Time) int64 { return int64(t.Hour()) },
	"weekday":  func(t time.Time) int64 { return int64(t.Weekday()) },
	"day":      func(t time.Time) int64 { return int64(t.Day()) },
	"month":    func(t time.Time) int64 { return int64(t.Month()) },
	"year":     func(t time.Time) int64 { return int64(t.Year()) },
}

func eqT(ts []tkind, want ...tkind) bool {
	if len(ts) != len(want) {
		return false
	}
	for i := range ts {
		if ts[i] != want[i] {
			return false
		}
	}
	return true
}

// funcType: result type of name(args) for the documented signatures.
func funcType(name string, ts []tkind) tkind {
	if _, ok := math1[name]; ok {
		if eqT(ts, tFloat) {
			return tFloat
		}
		return tInvalid
	}
	if _, ok := math2[name]; ok {
		if eqT(ts, tFloat, tFloat) {
			return tFloat
		}
		return tInvalid
	}
	if _, ok := str2bool[name]; ok {
		if eqT(ts, tString, tString) {
			return tBool
		}
		return tInvalid
	}
	if _, ok := str2int[name]; ok {
		if eqT(ts, tString, tString) {
			return tInt
		}
		return tInvalid
	}
	if _, ok := str2str[name]; ok {
		if eqT(ts, tString, tString) {
			return tString
		}
		return tInvalid
	}
	if _, ok := str1str[name]; ok {
		if eqT(ts, tString) {
			return tString
		}
		return tInvalid
	}
	if _, ok := timeFns[name]; ok {
		if eqT(ts, tTime) {
			return tInt
		}
		return tInvalid
	}
	one := func(allowed ...tkind) bool {
		if len(ts) != 1 {
			return false
		}
		for _, a := range allowed {
			if ts[0] == a {
				return true
			}
		}
		return false
	}
	switch name {
	case "bool":
		if one(tBool, tString, tInt, tFloat) {
			return tBool
		}
	case "int":
		if one(tBool, tString, tInt, tFloat) {
			return tInt
		}
	case "float":
		if one(tBool, tString, tInt, tFloat) {
			return tFloat
		}
	case "string":
		if one(tBool, tString, tInt, tFloat, tDuration) {
			return tString
		}
	case "duration":
		if eqT(ts, tDuration) || eqT(ts, tInt, tDuration) || eqT(ts, tFloat, tDuration) || eqT(ts, tString, tDuration) {
			return tDuration
		}
	case "strLength":
		if eqT(ts, tString) {
			return tInt
		}
	case "strReplace":
		if eqT(ts, tString, tString, tString, tInt) {
			return tString
		}
	case "strSubstring":
		if eqT(ts, tString, tInt, tInt) {
			return tString
		}
	case "regexReplace":
		if eqT(ts, tRegex, tString, tString) {
			return tString
		}
	case "isPresent":
		if len(ts) == 1 {
			return tBool
		}
	case "count":
		if len(ts) == 0 {
			return tInt
		}
	case "sigma", "spread":
		if eqT(ts, tFloat) {
			return tFloat
		}
	case "if":
		if len(ts) == 3 && ts[0] == tBool && ts[1] == ts[2] && ts[1] != tMissing {
			return ts[1]
		}
	}
	return tInvalid
}

func known(name string) bool {
	for _, m := range []any{math1, math2, str2bool, str2int, str2str, str1str, timeFns} {
		switch m := m.(type) {
		case map[string]func(float64) float64:
			if _, ok := m[name]; ok {
				return true
			}
		case map[string]func(float64, float64) float64:
			if _, ok := m[name]; ok {
				return true
			}
		case map[string]func(string, string) bool:
			if _, ok := m[name]; ok {
				return true
			}
		case map[string]func(string, string) int:
			if _, ok := m[name]; ok {
				return true
			}
		case map[string]func(string, string) string:
			if _, ok := m[name]; ok {
				return true
			}
		case map[string]func(string) string:
			if _, ok := m[name]; ok {
				return true
			}
		case map[string]func(time.Time) int64:
			if _, ok := m[name]; ok {
				return true
			}
		}
	}
	switch name {
	case "bool", "int", "float", "string", "duration", "strLength", "strReplace", "strSubstring", "regexReplace", "isPresent", "count", "sigma", "spread", "if":
		return true
	}
	return false
}

// eval evaluates n. The static type check of the whole expression is done by the caller.
func (st *refState) eval(n ast.Node, sc map[string]any) (any, ekind) {
	switch n := n.(type) {
	case *ast.NumberNode:
		if n.IsInt {
			return n.Int64, eNone
		}
		return n.Float64, eNone
	case *ast.DurationNode:
		return n.Dur, eNone
	case *ast.StringNode:
		return n.Literal, eNone
	case *ast.BoolNode:
		return n.Bool, eNone
	case *ast.RegexNode:
		return n.Regex, eNone
	case *ast.ReferenceNode:
		v, ok := sc[n.Reference]
		if !ok || kindOf(v) == tInvalid {
			return nil, eType
		}
		return v, eNone
	case *ast.LambdaNode:
		return st.eval(n.Expression, sc)
	case *ast.UnaryNode:
		v, e := st.eval(n.Node, sc)
		if e != eNone {
			return nil, e
		}
		switch n.Operator {
		case ast.TokenMinus:
			switch x := v.(type) {
			case int64:
				return -x, eNone
			case float64:
				return -x, eNone
			case time.Duration:
				return -x, eNone
			}
		case ast.TokenNot:
			if x, ok := v.(bool); ok {
				return !x, eNone
			}
		}
		return nil, eType
	case *ast.BinaryNode:
		return st.evalBinary(n, sc)
	case *ast.FunctionNode:
		return st.evalFunc(n, sc)
	}
	return nil, eType
}

func cmpOrd[T int64 | float64 | string | time.Duration](op ast.TokenType, a, b T) bool {
	switch op {
	case ast.TokenEqual:
		return a == b
	case ast.TokenNotEqual:
		return a != b
	case ast.TokenLess:
		return a < b
	case ast.TokenLessEqual:
		return a <= b
	case ast.TokenGreater:
		return a > b
	case ast.TokenGreaterEqual:
		return a >= b
	}
	panic("not a comparison")
}

func toF(v any) float64 {
	switch x := v.(type) {
	case int64:
		return float64(x)
	case float64:
		return x
	}
	panic("not numeric")
}

func (st *refState) evalBinary(n *ast.BinaryNode, sc map[string]any) (any, ekind) {
	op := n.Operator
	if op == ast.TokenAnd || op == ast.TokenOr {
		l, e := st.eval(n.Left, sc)
		if e != eNone {
			return nil, e
		}
		lb, ok := l.(bool)
		if !ok {
			return nil, eType
		}
		if (op == ast.TokenAnd && !lb) || (op == ast.TokenOr && lb) {
			// short circuit: the right operand is not evaluated. If it is ill-typed an
			// implementation that type-checks the whole expression first may report the error.
			if t, te := typeOf(n.Right, sc); te != eNone || t != tBool {
				st.lenient = true
			}
			return lb, eNone
		}
		r, e := st.eval(n.Right, sc)
		if e != eNone {
			return nil, e
		}
		rb, ok := r.(bool)
		if !ok {
			return nil, eType
		}
		return rb, eNone
	}
	l, e := st.eval(n.Left, sc)
	if e != eNone {
		return nil, e
	}
	r, e := st.eval(n.Right, sc)
	if e != eNone {
		return nil, e
	}
	lt, rt := kindOf(l), kindOf(r)
	if binType(op, lt, rt) == tInvalid {
		return nil, eType
	}
	switch op {
	case ast.TokenEqual, ast.TokenNotEqual, ast.TokenLess, ast.TokenLessEqual, ast.TokenGreater, ast.TokenGreaterEqual:
		switch {
		case lt == tBool:
			if op == ast.TokenEqual {
				return l.(bool) == r.(bool), eNone
			}
			return l.(bool) != r.(bool), eNone
		case lt == tInt && rt == tInt:
			return cmpOrd(op, l.(int64), r.(int64)), eNone
		case isNum(lt):
			return cmpOrd(op, toF(l), toF(r)), eNone
		case lt == tString:
			return cmpOrd(op, l.(string), r.(string)), eNone
		case lt == tDuration:
			return cmpOrd(op, l.(time.Duration), r.(time.Duration)), eNone
		}
	case ast.TokenRegexEqual:
		return r.(*regexp.Regexp).MatchString(l.(string)), eNone
	case ast.TokenRegexNotEqual:
		return !r.(*regexp.Regexp).MatchString(l.(string)), eNone
	case ast.TokenPlus:
		switch lt {
		case tInt:
			return l.(int64) + r.(int64), eNone
		case tFloat:
			return l.(float64) + r.(float64), eNone
		case tString:
			return l.(string) + r.(string), eNone
		case tDuration:
			return l.(time.Duration) + r.(time.Duration), eNone
		}
	case ast.TokenMinus:
		switch lt {
		case tInt:
			return l.(int64) - r.(int64), eNone
		case tFloat:
			return l.(float64) - r.(float64), eNone
		case tDuration:
			return l.(time.Duration) - r.(time.Duration), eNone
		}
	case ast.TokenMult:
		switch {
		case lt == tInt && rt == tInt:
			return l.(int64) * r.(int64), eNone
		case lt == tFloat && rt == tFloat:
			return l.(float64) * r.(float64), eNone
		case lt == tDuration && rt == tInt:
			return l.(time.Duration) * time.Duration(r.(int64)), eNone
		case lt == tInt && rt == tDuration:
			return time.Duration(l.(int64)) * r.(time.Duration), eNone
		case lt == tDuration && rt == tFloat:
			return st.durOfFloat(float64(l.(time.Duration)) * r.(float64)), eNone
		case lt == tFloat && rt == tDuration:
			return st.durOfFloat(l.(float64) * float64(r.(time.Duration))), eNone
		}
	case ast.TokenDiv:
		switch {
		case lt == tInt && rt == tInt:
			if r.(int64) == 0 {
				return nil, eValue
			}
			return l.(int64) / r.(int64), eNone
		case lt == tFloat && rt == tFloat:
			return l.(float64) / r.(float64), eNone
		case lt == tDuration && rt == tInt:
			if r.(int64) == 0 {
				return nil, eValue
			}
			return l.(time.Duration) / time.Duration(r.(int64)), eNone
		case lt == tDuration && rt == tFloat:
			return st.durOfFloat(float64(l.(time.Duration)) / r.(float64)), eNone
		case lt == tDuration && rt == tDuration:
			if r.(time.Duration) == 0 {
				return nil, eValue
			}
			return int64(l.(time.Duration) / r.(time.Duration)), eNone
		}
	case ast.TokenMod:
		if r.(int64) == 0 {
			return nil, eValue
		}
		return l.(int64) % r.(int64), eNone
	}
	return nil, eType
}

// durOfFloat converts a float number of nanoseconds to a duration. Out-of-range and NaN
// conversions are implementation-defined in Go: the reference declines to define them.
func (st *refState) durOfFloat(f float64) time.Duration {
	if math.IsNaN(f) || math.IsInf(f, 0) || math.Abs(f) >= 9e18 {
		st.noRef = true
		return 0
	}
	return time.Duration(f)
}

func (st *refState) evalFunc(n *ast.FunctionNode, sc map[string]any) (any, ekind) {
	name := n.Func
	if !known(name) {
		st.noRef = true
		return nil, eType
	}
	if name == "isPresent" {
		if len(n.Args) != 1 {
			return nil, eType
		}
		if ref, ok := n.Args[0].(*ast.ReferenceNode); ok {
			v, ok := sc[ref.Reference]
			if !ok {
				// not in scope at all: undefined name
				st.lenient = true
				return false, eNone
			}
			if k := kindOf(v); k == tDuration || k == tTime || k == tRegex {
				st.noRef = true // not in the documented signature of isPresent
			}
			return kindOf(v) != tMissing, eNone
		}
		v, e := st.eval(n.Args[0], sc)
		if e != eNone {
			return nil, e
		}
		if k := kindOf(v); k == tDuration || k == tTime || k == tRegex {
			st.noRef = true // not in the documented signature of isPresent
		}
		return kindOf(v) != tMissing, eNone
	}
	if name == "if" {
		if len(n.Args) != 3 {
			return nil, eType
		}
		var ts []tkind
		for _, a := range n.Args {
			t, e := typeOf(a, sc)
			if e != eNone {
				return nil, eType
			}
			ts = append(ts, t)
		}
		if funcType("if", ts) == tInvalid {
			return nil, eType
		}
		// all three arguments are evaluated (if() is an ordinary function call)
		c, e := st.eval(n.Args[0], sc)
		if e != eNone {
			return nil, e
		}
		a, e := st.eval(n.Args[1], sc)
		if e != eNone {
			return nil, e
		}
		b, e := st.eval(n.Args[2], sc)
		if e != eNone {
			return nil, e
		}
		if c.(bool) {
			return a, eNone
		}
		return b, eNone
	}
	var args []any
	var ts []tkind
	for _, a := range n.Args {
		v, e := st.eval(a, sc)
		if e != eNone {
			return nil, e
		}
		args = append(args, v)
		ts = append(ts, kindOf(v))
	}
	if funcType(name, ts) == tInvalid {
		// conversions accepted by the implementation's Call but absent from its signature table
		if (name == "int" && eqT(ts, tDuration)) || (name == "duration" && eqT(ts, tString)) {
			st.noRef = true
		}
		return nil, eType
	}
	if f, ok := math1[name]; ok {
		return f(args[0].(float64)), eNone
	}
	if f, ok := math2[name]; ok {
		return f(args[0].(float64), args[1].(float64)), eNone
	}
	if f, ok := str2bool[name]; ok {
		return f(args[0].(string), args[1].(string)), eNone
	}
	if f, ok := str2int[name]; ok {
		return int64(f(args[0].(string), args[1].(string))), eNone
	}
	if f, ok := str2str[name]; ok {
		return f(args[0].(string), args[1].(string)), eNone
	}
	if f, ok := str1str[name]; ok {
		return f(args[0].(string)), eNone
	}
	if f, ok := timeFns[name]; ok {
		return f(args[0].(time.Time)), eNone
	}
	switch name {
	case "bool":
		switch a := args[0].(type) {
		case bool:
			return a, eNone
		case string:
			v, err := strconv.ParseBool(a)
			if err != nil {
				return nil, eValue
			}
			return v, eNone
		case int64:
			if a == 0 || a == 1 {
				return a == 1, eNone
			}
			return nil, eValue
		case float64:
			if a == 0 || a == 1 {
				return a == 1, eNone
			}
			return nil, eValue
		}
	case "int":
		switch a := args[0].(type) {
		case int64:
			return a, eNone
		case float64:
			if math.IsNaN(a) || math.Abs(a) >= 9.2e18 {
				st.noRef = true
			}
			return int64(a), eNone
		case string:
			v, err := strconv.ParseInt(a, 10, 64)
			if err != nil {
				return nil, eValue
			}
			return v, eNone
		case bool:
			if a {
				return int64(1), eNone
			}
			return int64(0), eNone
		}
	case "float":
		switch a := args[0].(type) {
		case int64:
			return float64(a), eNone
		case float64:
			return a, eNone
		case string:
			v, err := strconv.ParseFloat(a, 64)
			if err != nil {
				return nil, eValue
			}
			return v, eNone
		case bool:
			if a {
				return float64(1), eNone
			}
			return float64(0), eNone
		}
	case "string":
		switch a := args[0].(type) {
		case int64:
			return strconv.FormatInt(a, 10), eNone
		case float64:
			return strconv.FormatFloat(a, 'f', -1, 64), eNone
		case bool:
			return strconv.FormatBool(a), eNone
		case time.Duration:
			return influxql.FormatDuration(a), eNone
		case string:
			return a, eNone
		}
	case "duration":
		switch a := args[0].(type) {
		case time.Duration:
			return a, eNone
		case int64:
			return time.Duration(a) * args[1].(time.Duration), eNone
		case float64:
			return st.durOfFloat(a * float64(args[1].(time.Duration))), eNone
		case string:
			d, err := influxql.ParseDuration(a)
			if err != nil {
				return nil, eValue
			}
			return d, eNone
		}
	case "strLength":
		return int64(len(args[0].(string))), eNone
	case "strReplace":
		return strings.Replace(args[0].(string), args[1].(string), args[2].(string), int(args[3].(int64))), eNone
	case "strSubstring":
		s, a, b := args[0].(string), args[1].(int64), args[2].(int64)
		if a < 0 || b < 0 || b > int64(len(s)) || a > b {
			return nil, eValue
		}
		if b == int64(len(s)) {
			// the implementation rejects stop == len(str); undocumented either way
			st.lenient = true
		}
		return s[a:b], eNone
	case "regexReplace":
		return args[0].(*regexp.Regexp).ReplaceAllString(args[1].(string), args[2].(string)), eNone
	case "count":
		st.count++
		return st.count, eNone
	case "sigma":
		x := args[0].(float64)
		st.sN++
		d := x - st.sMean
		st.sMean += d / st.sN
		st.sM2 += d * (x - st.sMean)
		if st.sN < 2 {
			return float64(0), eNone
		}
		v := st.sM2 / (st.sN - 1)
		if v == 0 {
			return float64(0), eNone
		}
		return math.Abs(x-st.sMean) / math.Sqrt(v), eNone
	case "spread":
		x := args[0].(float64)
		if !st.spInit {
			st.spInit = true
			st.spMin, st.spMax = math.Inf(1), math.Inf(-1)
		}
		if x < st.spMin {
			st.spMin = x
		}
		if x > st.spMax {
			st.spMax = x
		}
		return st.spMax - st.spMin, eNone
	}
	return nil, eType
}
