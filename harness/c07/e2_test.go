package c07

import (
	"os"
	"fmt"
	"strings"
	"testing"
	"time"

	"github.com/influxdata/kapacitor"
	"github.com/influxdata/kapacitor/influxdb"
	"github.com/influxdata/kapacitor/zz_verif/kit"
	"github.com/influxdata/kapacitor/zz_verif/rep"
)

// Part B (no controlled scheduler, one message in flight): tasks in a state the schedule exploration does not
// produce - a node that has already failed, a handler with a backlog - are stopped; when StopTask returns the
// task has handed over what it accepted and nothing of it keeps running.

type StopCase struct {
	Name   string
	Script string
	N      int           // points written before the stop
	Delay  time.Duration // latency of the exec handler per event
	Events int           // events the exec handler must have been handed when StopTask returns (-1: not judged)
	// Sink/SinkWant: the |log().prefix(Sink) sink must hold SinkWant points when StopTask has returned ("" = not judged)
	Sink     string
	SinkWant int
	// Burst: the points are written back to back (no quiescence in between) and the whole TaskMaster is closed right
	// after the last acknowledgement, with most of them still on their way (goroutine interleaving is the Go
	// scheduler's here; the expectation holds for every interleaving)
	Burst    bool
	SameTime bool // the first N-1 points carry one time stamp (and different tags), the last one a later one
}

func stopCases() []StopCase {
	return []StopCase{
		{Name: "failed-node-before-stats-sink", N: 3, Events: -1,
			Script: "var src = stream|from().measurement('m')\nsrc|alert().id('{{ .Bogus }}').crit(lambda: TRUE).exec('cmd')\nsrc|stats(1s)|influxDBOut().database('o')\nsrc|log().prefix('S')"},
		{Name: "failed-node-before-window", N: 3, Events: -1,
			Script: "var src = stream|from().measurement('m')\nsrc|alert().id('{{ .Bogus }}').crit(lambda: TRUE).exec('cmd')\nsrc|window().period(10s).every(1s)|count('v')|influxDBOut().database('o')"},
		{Name: "topic-and-slow-inline-handler", N: 5, Delay: time.Second, Events: 5,
			Script: "stream|from().measurement('m')|alert().crit(lambda: TRUE).topic('nt').exec('cmd')"},
		{Name: "slow-inline-handler", N: 5, Delay: time.Second, Events: 5,
			Script: "stream|from().measurement('m')|alert().crit(lambda: TRUE).exec('cmd')"},
		// a union one of whose parents never delivered anything: the stop flushes what the other parent sent
		{Name: "union-silent-parent", N: 3, Events: -1, Sink: "U", SinkWant: 3,
			Script: "var a = stream|from().measurement('m')\nvar b = stream|from().measurement('silent')\na|union(b)|log().prefix('U')"},
		{Name: "union-silent-parent-3", N: 3, Events: -1, Sink: "U", SinkWant: 3,
			Script: "var a = stream|from().measurement('silent')\nvar b = stream|from().measurement('m')\nvar c = stream|from().measurement('silent2')\na|union(b, c)|log().prefix('U')"},
		{Name: "join-outer-silent-parent", N: 3, Events: -1, Sink: "J", SinkWant: 3,
			Script: "var a = stream|from().measurement('m')\nvar b = stream|from().measurement('silent')\na|join(b).as('a', 'b').fill('null')|log().prefix('J')"},
		// a loopback next to a sibling output, the TaskMaster closed with hundreds of acknowledged points in flight: the
		// loopback cannot write back any more ('TaskMaster is closed'), the sibling still gets every point
		{Name: "loopback-sibling-close-burst", N: 300, Events: -1, Sink: "S", SinkWant: 300, Burst: true,
			Script: "var src = stream|from().measurement('m')\nsrc|kapacitorLoopback().database('db2').retentionPolicy('rp').measurement('loop')\nsrc|log().prefix('S')"},
		// a branch that fails at run time between healthy siblings (combine: 3 points of one time stamp exceed max(1)):
		// the stop returns and the siblings have everything
		{Name: "failed-branch-between-siblings", N: 4, Events: -1, Sink: "S2", SinkWant: 4, SameTime: true,
			Script: "var src = stream|from().measurement('m')\nsrc|log().prefix('S1')\nsrc|combine(lambda: TRUE, lambda: TRUE).as('x', 'y').max(1)|log().prefix('C')\nsrc|log().prefix('S2')"},
		{Name: "failed-branch-before-influxdbout", N: 4, Events: -1, SameTime: true,
			Script: "var src = stream|from().measurement('m')\nsrc|influxDBOut().database('o1')\nsrc|combine(lambda: TRUE, lambda: TRUE).as('x', 'y').max(1)|log().prefix('C')\nsrc|influxDBOut().database('o2')"},
		{Name: "topic-only", N: 5, Events: -1,
			Script: "stream|from().measurement('m')|alert().crit(lambda: TRUE).topic('nt')"},
	}
}

func runStopCase(t *testing.T, c StopCase) []string {
	var probs []string
	atStop, later := 0, 0
	sinkAtStop := -1
	var startErr string
	leak, pan := kit.Bubble(t, func() {
		cmd := &kit.FakeCommander{Delay: c.Delay}
		env, err := kit.NewAlertEnv("c07b", kit.AlertOpts{Commander: cmd})
		if err != nil {
			panic(err)
		}
		env.TM.InfluxDBService = &kit.FakeInflux{}
		// (the task master's ingest edge exists already, with the default size; the task's edges are created now)
		if c.Burst {
			kapacitor.VerifSetEdgeBufferSize(1)
		} else {
			kapacitor.VerifSetEdgeBufferSize(1000)
		}
		if _, err := env.StartStream("t", c.Script); err != nil {
			startErr = err.Error()
			env.Shutdown(true)
			return
		}
		kit.Wait()
		for i := 0; i < c.N; i++ {
			ts, tags := kit.T0.Add(time.Duration(i+1)*time.Second), map[string]string{"h": "a"}
			if c.SameTime {
				// all but the last point share one time stamp; the last one is later and closes that instant
				ts, tags = kit.T0.Add(time.Second), map[string]string{"h": fmt.Sprint(i)}
				if i == c.N-1 {
					ts = kit.T0.Add(2 * time.Second)
				}
			}
			env.Write("db", "rp", kit.MkPoint("m", tags, map[string]any{"v": int64(i)}, ts))
			if !c.Burst {
				kit.Wait()
			}
		}
		if c.Burst {
			env.TM.Close()
		} else {
			env.TM.StopTask("t")
		}
		atStop = len(cmd.Copy())
		if c.Sink != "" {
			sinkAtStop = 0
			if sk := env.Diag.Sink(c.Sink); sk != nil {
				sinkAtStop = len(sk.Points())
			}
		}
		kit.Wait()
		if os.Getenv("VERIF_DEBUG") != "" {
			fmt.Fprintf(os.Stderr, "DEBUG %s: sinkAtStop=%d errors=%.600v\n", c.Name, sinkAtStop, env.Diag.ErrorsCopy())
		}
		// the same task again (disable/enable): nothing of the first incarnation may still be delivering
		time.Sleep(30 * time.Second)
		kit.Wait()
		later = len(cmd.Copy())
		env.Shutdown(true)
		kit.Wait()
	})
	if pan != nil {
		return []string{"panic: " + rep.Short(fmt.Sprint(pan))}
	}
	if startErr != "" {
		return []string{"rejected: " + startErr}
	}
	if strings.HasPrefix(leak, "hang:") {
		probs = append(probs, "still-running: something of the task kept running (virtual time never came to rest) after StopTask and TaskMaster.Close: "+rep.Short(leak))
	} else if leak != "" {
		probs = append(probs, "goroutines-left: "+rep.Short(leak))
	}
	if c.Sink != "" && sinkAtStop != c.SinkWant {
		probs = append(probs, fmt.Sprintf("acknowledged-points-not-delivered-at-stop: %d of %d acknowledged points had reached the output %s when the stop call (StopTask, or TaskMaster.Close in the burst case) returned", sinkAtStop, c.SinkWant, c.Sink))
	}
	if c.Events >= 0 && atStop != c.Events {
		probs = append(probs, fmt.Sprintf("events-not-handed-over-at-stop: %d of %d events had been handed to the exec handler when StopTask returned (%d 30s later)", atStop, c.Events, later))
	}
	if c.Events >= 0 && later != atStop {
		probs = append(probs, fmt.Sprintf("delivery-after-stop: %d events were handed over after StopTask had returned", later-atStop))
	}
	return probs
}

type StopReplay struct {
	Stop  *StopCase
	Batch string
}

func stopPart(t *testing.T, r *rep.R) {
	for name, script := range batchStopScripts {
		r.Add("evaluations", 1)
		r.Add("stop_cases", 1)
		if p := runBatchStop(t, script); p != "" {
			r.Violation(strings.SplitN(p, ":", 2)[0]+":"+name, name+" ("+script+"): "+p, StopReplay{Batch: name})
		}
	}
	for _, c := range stopCases() {
		c := c
		r.Add("evaluations", 1)
		r.Add("stop_cases", 1)
		for _, p := range runStopCase(t, c) {
			kind := strings.SplitN(p, ":", 2)[0]
			r.Violation(kind+":"+c.Name, c.Name+" ("+strings.ReplaceAll(c.Script, "\n", " ; ")+"): "+p, StopReplay{Stop: &c})
		}
	}
}

// batch task whose query is slower than its schedule, stopped while a query is in flight and the next tick is
// already due: StopTask must return (ten stops at different phases; the hand-over between the ticker's goroutine
// and the query loop is a select, so one stop alone may take either branch)
func runBatchStop(t *testing.T, script string) string {
	stops := 0
	leak, pan := kit.Bubble(t, func() {
		env, err := kit.NewEnv("c07c")
		if err != nil {
			panic(err)
		}
		fi := &kit.FakeInflux{}
		fi.QueryFunc = func(q influxdb.Query) (*influxdb.Response, error) {
			time.Sleep(3 * time.Second)
			return &influxdb.Response{}, nil
		}
		env.TM.InfluxDBService = fi
		for trial := 0; trial < 10; trial++ {
			et, err := env.Start("b", script, kapacitor.BatchTask, kit.DBRP)
			if err != nil {
				panic(err)
			}
			if err := et.StartBatching(); err != nil {
				panic(err)
			}
			time.Sleep(1500*time.Millisecond + time.Duration(trial)*370*time.Millisecond)
			env.TM.StopTask("b")
			stops++
			kit.Wait()
		}
		env.TM.Close()
		kit.Wait()
	})
	if pan != nil {
		return "panic: " + rep.Short(fmt.Sprint(pan))
	}
	if stops != 10 {
		return fmt.Sprintf("stop-never-returned: StopTask #%d of a batch task with a query in flight and a tick pending did not return (%s)", stops+1, rep.Short(leak))
	}
	if leak != "" {
		return "goroutines-left: " + rep.Short(leak)
	}
	return ""
}

var batchStopScripts = map[string]string{
	"batch-align-slow-query": "batch|query('SELECT v FROM \"db\".\"rp\".\"m\"').period(1s).every(1s).align()|log().prefix('S')",
	"batch-cron-slow-query":  "batch|query('SELECT v FROM \"db\".\"rp\".\"m\"').period(1s).cron('* * * * * * *')|log().prefix('S')",
	"batch-every-slow-query": "batch|query('SELECT v FROM \"db\".\"rp\".\"m\"').period(1s).every(1s)|log().prefix('S')",
}
