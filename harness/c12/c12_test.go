package c12

import (
	"fmt"
	"sort"
	"strings"
	"testing"
	"time"

	"github.com/influxdata/kapacitor/zz_verif/kit"
	"github.com/influxdata/kapacitor/zz_verif/rep"
)

type Config struct {
	Unbuffered bool `json:",omitempty"` // batch mode: the parents reach join/union through a node that forwards begin/point/end separately
	TolS  int    // tolerance seconds (0 = none)
	Fill  string // "", "null", "0"
	On    bool   // join on dimension 'h': parent a grouped by h,s (specific), parent b grouped by h
	Three bool   // three parents
}

func (c Config) script() string {
	var sb strings.Builder
	ga, gb := "", ""
	if c.On {
		ga, gb = ".groupBy('h', 's')", ".groupBy('h')"
	}
	fmt.Fprintf(&sb, "var a = stream|from().measurement('a')%s\nvar b = stream|from().measurement('b')%s\n", ga, gb)
	parents, names := "b", "'a', 'b'"
	if c.Three {
		sb.WriteString("var c = stream|from().measurement('c')\n")
		parents, names = "b, c", "'a', 'b', 'c'"
	}
	fmt.Fprintf(&sb, "a|join(%s).as(%s)", parents, names)
	if c.TolS > 0 {
		fmt.Fprintf(&sb, ".tolerance(%ds)", c.TolS)
	}
	switch c.Fill {
	case "null":
		sb.WriteString(".fill('null')")
	case "0":
		sb.WriteString(".fill(0.0)")
	}
	if c.On {
		sb.WriteString(".on('h')")
	}
	sb.WriteString("|log().prefix('J')\n")
	fmt.Fprintf(&sb, "a|union(%s)|log().prefix('U')\n", parents)
	fmt.Fprintf(&sb, "a|union(%s).rename('r')|log().prefix('R')\n", parents)
	return sb.String()
}

// Case: per-parent time sequences (seconds, non-decreasing) and a merge order (parent index per step)
type Case struct {
	Cfg   Config
	Seqs  [][]int
	BSeqs [][]BatchIn `json:",omitempty"` // batch mode: per-parent batch sequences
	Order []int
}

type outcome struct {
	join    []string // canonical joined points (sorted = multiset)
	union   []string // in output order
	renamed []string // output of the renaming union
	errs    []string
}

func pointFor(c Config, parent, idx, tsec int) (string, map[string]string, map[string]any, time.Time) {
	name := string(rune('a' + parent))
	var tags map[string]string
	if c.On {
		if parent == 0 {
			tags = map[string]string{"h": "x", "s": fmt.Sprint(idx % 2)}
		} else {
			tags = map[string]string{"h": "x"}
		}
	}
	return name, tags, map[string]any{"v": int64(parent*100 + idx)}, kit.T0.Add(time.Duration(tsec) * time.Second)
}

func run(t *testing.T, c Case) (o outcome, p *problem) {
	leak, pan := kit.Bubble(t, func() {
		env, err := kit.NewEnv("c12")
		if err != nil {
			p = &problem{"internal", err.Error()}
			return
		}
		if _, err := env.StartStream("t", c.Cfg.script()); err != nil {
			p = &problem{"internal", "start: " + err.Error()}
			return
		}
		next := make([]int, len(c.Seqs))
		for _, par := range c.Order {
			i := next[par]
			next[par]++
			name, tags, fields, tm := pointFor(c.Cfg, par, i, c.Seqs[par][i])
			if err := env.Write("db", "rp", kit.MkPoint(name, tags, fields, tm)); err != nil {
				p = &problem{"internal", err.Error()}
				return
			}
			kit.Wait()
		}
		if err := env.TM.Close(); err != nil {
			p = &problem{"internal", err.Error()}
		}
		kit.Wait()
		for _, pt := range env.Diag.Sink("J").Points() {
			o.join = append(o.join, fmt.Sprintf("n=%s t=%d g=%q %s", pt.Name, pt.T.Sub(kit.T0)/time.Second, pt.Group, kit.FmtFields(pt.Fields)))
		}
		for _, pt := range env.Diag.Sink("U").Points() {
			o.union = append(o.union, fmt.Sprintf("%s:%d@%d", pt.Name, pt.Fields["v"], pt.T.Sub(kit.T0)/time.Second))
		}
		if s := env.Diag.Sink("R"); s != nil {
			for _, pt := range s.Points() {
				o.renamed = append(o.renamed, fmt.Sprintf("%s:%d@%d", pt.Name, pt.Fields["v"], pt.T.Sub(kit.T0)/time.Second))
			}
		}
		for _, e := range env.Diag.ErrorsCopy() {
			o.errs = append(o.errs, fmt.Sprintf("%+v", e))
		}
	})
	if pan != nil {
		return o, &problem{"panic", fmt.Sprintf("panic: %v", pan)}
	}
	if leak != "" && p == nil {
		return o, &problem{"goroutine-leak", leak}
	}
	sort.Strings(o.join)
	return
}

type problem struct{ kind, msg string }

// reference join (no on-dimension): k-th occurrence per rounded time
func refJoin(c Config, seqs [][]int) []string {
	tol := time.Duration(c.TolS) * time.Second
	type pt struct{ v int64 }
	byT := map[time.Time][][]pt{}
	var times []time.Time
	for par, s := range seqs {
		for i, ts := range s {
			tm := kit.T0.Add(time.Duration(ts) * time.Second).Round(tol)
			if byT[tm] == nil {
				byT[tm] = make([][]pt, len(seqs))
				times = append(times, tm)
			}
			byT[tm][par] = append(byT[tm][par], pt{int64(par*100 + i)})
		}
	}
	var out []string
	for _, tm := range times {
		lists := byT[tm]
		max := 0
		for _, l := range lists {
			if len(l) > max {
				max = len(l)
			}
		}
		for k := 0; k < max; k++ {
			fields := map[string]any{}
			complete := true
			name := "" // the joined point is named after the left-most parent present (no streamName configured)
			for par, l := range lists {
				key := string(rune('a'+par)) + ".v"
				if k < len(l) {
					fields[key] = l[k].v
					if name == "" {
						name = string(rune('a' + par))
					}
				} else {
					complete = false
					switch c.Fill {
					case "null":
						fields[key] = nil
					case "0":
						fields[key] = float64(0)
					}
				}
			}
			if !complete && c.Fill == "" {
				continue
			}
			out = append(out, fmt.Sprintf("n=%s t=%d g=%q %s", name, tm.Sub(kit.T0)/time.Second, "", kit.FmtFields(fields)))
		}
	}
	sort.Strings(out)
	return out
}

func checkUnion(c Case, o outcome) *problem {
	total := 0
	for _, s := range c.Seqs {
		total += len(s)
	}
	if len(o.union) != total {
		return &problem{"union-count", fmt.Sprintf("union emitted %d messages for %d inputs: %v", len(o.union), total, o.union)}
	}
	last := -1
	nextIdx := make([]int, len(c.Seqs))
	for _, u := range o.union {
		var name string
		var v, ts int
		fmt.Sscanf(strings.NewReplacer(":", " ", "@", " ").Replace(u), "%s %d %d", &name, &v, &ts)
		par := int(name[0] - 'a')
		if v != par*100+nextIdx[par] {
			return &problem{"union-parent-order", fmt.Sprintf("union output %v: messages of parent %s are duplicated, lost or out of order", o.union, name)}
		}
		nextIdx[par]++
		if ts < last {
			return &problem{"union-time-order", fmt.Sprintf("union output %v is not in non-decreasing time order", o.union)}
		}
		last = ts
	}
	// the renaming union sees the same arrivals: the same messages in the same order, all named r (and the plain
	// union's output, checked above by name, shows that renaming did not touch the shared messages)
	var want []string
	for _, u := range o.union {
		want = append(want, "r"+u[strings.Index(u, ":"):])
	}
	if strings.Join(want, " ") != strings.Join(o.renamed, " ") {
		return &problem{"union-rename", fmt.Sprintf("union().rename('r') emitted %v, the plain union %v", o.renamed, o.union)}
	}
	return nil
}

// ---------------------------------------------------------------- enumeration

func seqsUpTo(n int, times []int) [][]int {
	var r [][]int
	var rec func(pre []int, start int)
	rec = func(pre []int, start int) {
		r = append(r, append([]int(nil), pre...))
		if len(pre) == n {
			return
		}
		for i := start; i < len(times); i++ {
			rec(append(pre, times[i]), i)
		}
	}
	rec(nil, 0)
	return r
}

func mergeOrders(lens []int, f func([]int)) {
	total := 0
	for _, l := range lens {
		total += l
	}
	left := append([]int(nil), lens...)
	cur := make([]int, 0, total)
	var rec func()
	rec = func() {
		if len(cur) == total {
			f(append([]int(nil), cur...))
			return
		}
		for p := range left {
			if left[p] > 0 {
				left[p]--
				cur = append(cur, p)
				rec()
				cur = cur[:len(cur)-1]
				left[p]++
			}
		}
	}
	rec()
}

func TestCheck(t *testing.T) {
	r := rep.New("C12", "model_checking",
		"join and union over all merge orders: a real task with two (or three) from() parents feeding join(...).as(...) [tolerance 0/2s/3s, fill none/null/0.0, on('h') with a more specific parent] and union(...); per-parent non-decreasing time sequences of up to 3 points over times {1,2,3,5}s ({1,2,4,5}s for tolerance 3s: raw times before and after the rounded time) (duplicates, gaps, silent parent); for every pair/triple of sequences ALL merge orders are fed one point at a time with quiescence in between, so the arrival order at the real multi-parent consumer is exactly the merge order. Oracles: the multiset of joined points is identical for every merge order of the same sequences (differential), equals the k-th-occurrence pairing reference (no on-dimension), everything buffered is flushed at task end; union emits every message once, keeps each parent's order and is non-decreasing in time; union().rename() emits the same sequence under the new name without touching the messages the plain union shares. Batch edges: a batch task with 2 (3) query nodes fed through its real BatchCollectors, per-parent sequences of up to 2 batches (batch times {10,20}s; {10,11,13}s under tolerance 3s) of up to 2 points, all merge orders; reference: batches matched per rounded batch time and k-th occurrence, points inside a matched set per rounded point time and k-th occurrence, inner/outer as configured. states = distinct (config, sequences) inputs; transitions = points fed; non-trivial = inputs with at least one joined point")
	defer r.Write()
	r.Assumption("parents deliver their points in time order (precondition of the statement)")
	r.Assumption("join with on(): only the merge-order independence is asserted (no absolute pairing reference)")
	r.Assumption("goroutine interleavings inside the multi-parent consumer are not varied here: one point is in flight at a time")

	if rep.ReplayPath() != "" {
		var q struct{ Queue []string }
		if err := rep.LoadReplay(&q); err == nil && len(q.Queue) > 0 {
			queueReplay(r, q.Queue)
			r.Add("evaluations", 1)
			return
		}
		var c Case
		if err := rep.LoadReplay(&c); err != nil {
			t.Fatal(err)
		}
		// replay: run every merge order of the case's sequences
		if c.BSeqs != nil {
			if p := checkBatchInput(t, c.Cfg, c.BSeqs, nil); p != nil {
				r.Violation(p.kind+":"+batchCfgKey(c.Cfg), p.msg, c)
			}
			r.Add("evaluations", 1)
			return
		}
		if p := checkInput(t, c.Cfg, c.Seqs, nil); p != nil {
			r.Violation(p.kind+":"+cfgKey(c.Cfg), p.msg, c)
		}
		r.Add("evaluations", 1)
		return
	}
	if i, _ := rep.Shard(); i == 0 {
		ml := 9
		if rep.Thorough() {
			ml = 17
		}
		queueBFS(r, ml)
	}
	var cfgs []Config
	for _, tol := range []int{0, 2} {
		for _, fill := range []string{"", "null", "0"} {
			cfgs = append(cfgs, Config{TolS: tol, Fill: fill})
			cfgs = append(cfgs, Config{TolS: tol, Fill: fill, On: true})
		}
	}
	cfgs = append(cfgs, Config{Three: true}, Config{Three: true, Fill: "null", TolS: 2})
	// tolerance 3s: raw times on both sides of the rounded time (1s rounds down, 2s and 4s round to 3s)
	cfgs = append(cfgs, Config{TolS: 3}, Config{TolS: 3, Fill: "null"}, Config{TolS: 3, On: true})
	maxLen := 3
	times := []int{1, 2, 3, 5}
	if !rep.Thorough() {
		times = []int{1, 2, 5}
	}
	n := 0
	batchPart(t, r, &n)
	for _, cfg := range cfgs {
		ml := maxLen
		if !rep.Thorough() {
			full := (cfg == Config{}) || (cfg == Config{TolS: 2, Fill: "null"}) || (cfg == Config{Fill: "0", On: true}) || (cfg == Config{TolS: 3})
			if !full {
				ml = 2
			}
		}
		tms := times
		if cfg.TolS == 3 {
			tms = []int{1, 2, 4, 5}
		}
		seqs := seqsUpTo(ml, tms)
		var inputs [][][]int
		for _, a := range seqs {
			for _, b := range seqs {
				if cfg.Three {
					for _, c := range seqs {
						inputs = append(inputs, [][]int{a, b, c})
					}
				} else {
					inputs = append(inputs, [][]int{a, b})
				}
			}
		}
		for _, in := range inputs {
			n++
			if !rep.Mine(n) {
				continue
			}
			if r.Expired() {
				r.Cap("deadline")
				break
			}
			rep.Current(Case{Cfg: cfg, Seqs: in})
			if p := checkInput(t, cfg, in, r); p != nil {
				r.Violation(p.kind+":"+cfgKey(cfg), p.msg, Case{Cfg: cfg, Seqs: in})
			}
			if r.WantSample() && n%700 == 3 {
				r.Sample(map[string]any{"script": cfg.script(), "parent_time_sequences_s": in})
			}
		}
	}
}

func cfgKey(c Config) string {
	k := "stream"
	if c.On {
		k += "+on"
	}
	if c.Three {
		k += "+3parents"
	}
	if c.Fill != "" {
		k += "+fill"
	}
	return k
}

// checkInput runs all merge orders of one input and applies the oracles.
func checkInput(t *testing.T, cfg Config, seqs [][]int, r *rep.R) (prob *problem) {
	lens := make([]int, len(seqs))
	total := 0
	for i, s := range seqs {
		lens[i] = len(s)
		total += len(s)
	}
	var first *outcome
	var firstOrder []int
	var want []string
	if !cfg.On {
		want = refJoin(cfg, seqs)
	}
	orders := 0
	mergeOrders(lens, func(order []int) {
		if prob != nil {
			return
		}
		orders++
		c := Case{Cfg: cfg, Seqs: seqs, Order: order}
		o, p := run(t, c)
		if r != nil {
			r.Add("evaluations", 1)
			r.Add("transitions", int64(total))
		}
		if p != nil {
			prob = p
			prob.msg += fmt.Sprintf(" (sequences %v, merge order %v)", seqs, order)
			return
		}
		if len(o.errs) > 0 {
			prob = &problem{"node-error", fmt.Sprintf("%v (sequences %v, merge order %v)", o.errs, seqs, order)}
			return
		}
		if first == nil {
			first, firstOrder = &o, order
		} else if strings.Join(first.join, "|") != strings.Join(o.join, "|") {
			prob = &problem{"join-depends-on-interleaving", fmt.Sprintf("sequences %v: merge order %v gives %v but merge order %v gives %v", seqs, firstOrder, first.join, order, o.join)}
			return
		}
		if want != nil && strings.Join(want, "|") != strings.Join(o.join, "|") {
			prob = &problem{"join-result", fmt.Sprintf("sequences %v merge order %v: joined %v, reference %v", seqs, order, o.join, want)}
			return
		}
		if p := checkUnion(c, o); p != nil {
			prob = p
			prob.msg += fmt.Sprintf(" (sequences %v, merge order %v)", seqs, order)
		}
	})
	if r != nil {
		r.AddDistinct("states", 1)
		if first != nil && len(first.join) > 0 {
			r.AddDistinct("nontrivial", 1)
		}
	}
	return
}
