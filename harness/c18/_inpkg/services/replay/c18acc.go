package replay

// VerifFileSource: the file-backed recording store (gzip stream / zip archive with one entry per batch query) that
// Service uses for every recording.
func VerifFileSource(path string) DataSource { return fileSource(path) }
