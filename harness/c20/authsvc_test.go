package c20

import (
	"fmt"
	"os"
	"path/filepath"
	"strings"

	"github.com/influxdata/kapacitor/keyvalue"
	"github.com/influxdata/kapacitor/services/auth"
	"github.com/influxdata/kapacitor/services/httpd"
	"github.com/influxdata/kapacitor/zz_verif/kit"
	"github.com/influxdata/kapacitor/zz_verif/rep"
)

// Part 4: subscription tokens on the real services/auth service (real user cache, real Bolt store): every history
// up to the depth bound of grant / use / revoke of two tokens; a token authenticates exactly while it is granted,
// whatever the cache has seen before.

type AuthOp struct {
	Kind  string // grant use revoke
	Token string
}

func (o AuthOp) String() string { return o.Kind + "(" + o.Token + ")" }

type authDiag struct{}

func (authDiag) Debug(string, ...keyvalue.T) {}

type authRoutes struct{}

func (authRoutes) AddRoutes([]httpd.Route) error { return nil }
func (authRoutes) DelRoutes([]httpd.Route)       {}

func runAuthHistory(hist []AuthOp) (string, string) {
	dir, _ := os.MkdirTemp(kit.TmpDir(), "c20auth-")
	defer os.RemoveAll(dir)
	st, err := kit.OpenStore(filepath.Join(dir, "auth.db"))
	if err != nil {
		return "internal", err.Error()
	}
	defer st.Close()
	svc, err := auth.NewService(auth.NewEnabledConfig(), authDiag{})
	if err != nil {
		return "internal", err.Error()
	}
	svc.StorageService = st
	svc.HTTPDService = authRoutes{}
	if err := svc.Open(); err != nil {
		return "internal", err.Error()
	}
	defer svc.Close()
	granted := map[string]bool{}
	for i, o := range hist {
		switch o.Kind {
		case "grant":
			if err := svc.GrantSubscriptionAccess(o.Token, "db", "rp"); err != nil {
				return "auth-grant-error", fmt.Sprintf("%v after %v: %v", o, hist[:i], err)
			}
			granted[o.Token] = true
		case "revoke":
			err := svc.RevokeSubscriptionAccess(o.Token)
			if err != nil && granted[o.Token] {
				return "auth-revoke-error", fmt.Sprintf("%v after %v: %v", o, hist[:i], err)
			}
			delete(granted, o.Token)
		case "use":
			_, err := svc.SubscriptionUser(o.Token)
			if (err == nil) != granted[o.Token] {
				return "subscription-token-state", fmt.Sprintf("after %v: SubscriptionUser(%s) returned err=%v, the token is granted: %v", hist[:i+1], o.Token, err, granted[o.Token])
			}
		}
		toks, err := svc.ListSubscriptionTokens()
		if err != nil {
			return "auth-list-error", err.Error()
		}
		if len(toks) != len(granted) {
			return "subscription-token-list", fmt.Sprintf("after %v: %d tokens listed (%s), %d granted", hist[:i+1], len(toks), strings.Join(toks, ","), len(granted))
		}
	}
	return "", ""
}

func authPart(r *rep.R) {
	depth := 5
	if rep.Thorough() {
		depth = 6
	}
	var alpha []AuthOp
	for _, tok := range []string{"t1", "t2"} {
		for _, k := range []string{"grant", "use", "revoke"} {
			alpha = append(alpha, AuthOp{k, tok})
		}
	}
	n := 0
	var rec func(h []AuthOp)
	rec = func(h []AuthOp) {
		if len(h) == depth {
			n++
			if !rep.Mine(n) {
				return
			}
			r.Add("evaluations", 1)
			r.Add("transitions", int64(len(h)))
			r.Add("auth_histories", 1)
			if k, msg := runAuthHistory(h); k != "" {
				r.Violation(k, msg, Replay{Kind: "auth", Auth: append([]AuthOp(nil), h...)})
			}
			return
		}
		for _, o := range alpha {
			rec(append(h, o))
		}
	}
	rec(nil)
}
