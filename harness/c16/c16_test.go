package c16

import (
	"fmt"
	"regexp"
	"sort"
	"strings"
	"sync"
	"testing"
	"time"

	"github.com/gorhill/cronexpr"
	"github.com/influxdata/influxql"
	"github.com/influxdata/kapacitor"
	"github.com/influxdata/kapacitor/edge"
	"github.com/influxdata/kapacitor/influxdb"
	"github.com/influxdata/kapacitor/models"
	"github.com/influxdata/kapacitor/zz_verif/kit"
	"github.com/influxdata/kapacitor/zz_verif/rep"
)

// ---------------------------------------------------------------- cases

type Case struct {
	Kind       string // cond | sched | dbrp
	Select     string // "SELECT ... FROM ..." without WHERE
	Select2    string // if set: a second query node of the same task (dbrp cases)
	Where      string // user condition ("" = none)
	Dims       string // groupBy(...) arguments in TICKscript syntax, "" = no groupBy
	Fill       string // fill(...) argument in TICKscript syntax, "" = none
	AlignGroup bool
	Align      bool
	Every      string // TICKscript duration
	Cron       string
	Period     string
	Offset     string
	PhaseNs    int64 // task start = T0 + phase
	SpanNs     int64 // observation span after start
	DBRPs      [][2]string
	// slow: the SlowNth query (1-based) takes SlowFor of (virtual) time to answer: ticks are dropped meanwhile
	SlowNth int    `json:",omitempty"`
	SlowFor string `json:",omitempty"`
	// multi: a task with three query nodes on different schedules (Kind "multi"): Every/Cron per node
	Multi []NodeSched `json:",omitempty"`
}

type NodeSched struct {
	M     string // measurement the node reads
	Every string
	Cron  string
}

func (c Case) query() string {
	if c.Where == "" {
		return c.Select
	}
	return c.Select + " WHERE " + c.Where
}

func (c Case) script() string {
	if len(c.Multi) > 0 {
		var sb strings.Builder
		for i, n := range c.Multi {
			fmt.Fprintf(&sb, "var q%d = batch\n  |query('SELECT v FROM \"db\".\"rp\".\"%s\"')\n    .period(10s)\n", i, n.M)
			if n.Every != "" {
				fmt.Fprintf(&sb, "    .every(%s)\n", n.Every)
			} else {
				fmt.Fprintf(&sb, "    .cron('%s')\n", n.Cron)
			}
			fmt.Fprintf(&sb, "  |log().prefix('X%d')\n", i)
		}
		return sb.String()
	}
	if c.Select2 != "" {
		// two query nodes under one batch source
		c1, c2 := c, c
		c1.Select2, c2.Select2 = "", ""
		c2.Select, c2.Where = c.Select2, ""
		s1 := strings.Replace(c1.script(), "batch\n", "var q1 = batch\n", 1)
		s2 := strings.Replace(c2.script(), "batch\n", "var q2 = batch\n", 1)
		s2 = strings.Replace(s2, "prefix('X')", "prefix('Y')", 1)
		return s1 + s2
	}
	var sb strings.Builder
	fmt.Fprintf(&sb, "batch\n  |query('''%s\n''')\n", c.query())
	if c.Period != "" {
		fmt.Fprintf(&sb, "    .period(%s)\n", c.Period)
	}
	if c.Every != "" {
		fmt.Fprintf(&sb, "    .every(%s)\n", c.Every)
	}
	if c.Cron != "" {
		fmt.Fprintf(&sb, "    .cron('%s')\n", c.Cron)
	}
	if c.Offset != "" {
		fmt.Fprintf(&sb, "    .offset(%s)\n", c.Offset)
	}
	if c.Align {
		sb.WriteString("    .align()\n")
	}
	if c.AlignGroup {
		sb.WriteString("    .alignGroup()\n")
	}
	if c.Dims != "" {
		fmt.Fprintf(&sb, "    .groupBy(%s)\n", c.Dims)
	}
	if c.Fill != "" {
		fmt.Fprintf(&sb, "    .fill(%s)\n", c.Fill)
	}
	sb.WriteString("  |log().prefix('X')\n")
	return sb.String()
}

func dur(s string) time.Duration {
	if s == "" {
		return 0
	}
	d, err := influxql.ParseDuration(s)
	if err != nil {
		panic(err)
	}
	return d
}

// ---------------------------------------------------------------- running the real task

type issued struct {
	At time.Time
	Q  string
}

type result struct {
	// PosToNode[i]: the query node (index in the script) that batch collector i feeds, found by sending a marker
	// batch through every collector: record/replay hand the i-th recorded list to the i-th collector
	PosToNode []int
	// HistPerNode: BatchQueries as returned, one list per entry
	HistPerNode [][]string
	// what an executing task that was never started lists (the record / replay path asks such a task)
	ColdHist    []string
	ColdHistErr string
	StartErr    string
	Start    time.Time
	End      time.Time
	Live     []issued
	Hist     []string
	HistErr  string
	Leak     string
	Panic    string
}

func run(t *testing.T, c Case) result {
	var res result
	leak, pan := kit.Bubble(t, func() {
		env, err := kit.NewEnv("c16")
		if err != nil {
			panic(err)
		}
		var mu sync.Mutex
		fi := &kit.FakeInflux{}
		fi.QueryFunc = func(q influxdb.Query) (*influxdb.Response, error) {
			mu.Lock()
			res.Live = append(res.Live, issued{At: time.Now(), Q: q.Command})
			nth := len(res.Live)
			mu.Unlock()
			if c.SlowNth > 0 && nth == c.SlowNth {
				time.Sleep(dur(c.SlowFor))
			}
			return &influxdb.Response{}, nil
		}
		env.TM.InfluxDBService = fi
		if c.PhaseNs > 0 {
			time.Sleep(time.Duration(c.PhaseNs))
		}
		var dbrps []kapacitor.DBRP
		for _, d := range c.DBRPs {
			dbrps = append(dbrps, kapacitor.DBRP{Database: d[0], RetentionPolicy: d[1]})
		}
		res.Start = time.Now()
		if c.Kind == "dbrp" {
			// the record / replay-live path: an executing task that is never started is asked for its queries
			if task, err := env.TM.NewTask("cold", c.script(), kapacitor.BatchTask, dbrps, 0, nil); err == nil {
				if cet, err := kapacitor.NewExecutingTask(env.TM, task); err == nil {
					bqs, err := cet.BatchQueries(res.Start.Add(-time.Minute), res.Start)
					if err != nil {
						res.ColdHistErr = err.Error()
					}
					for _, bq := range bqs {
						for _, q := range bq.Queries {
							res.ColdHist = append(res.ColdHist, q.String())
						}
					}
				}
			}
		}
		et, err := env.Start("t", c.script(), kapacitor.BatchTask, dbrps)
		if err == nil {
			// as services/task_store startTask does
			if err = et.StartBatching(); err != nil {
				env.TM.StopTask("t")
			}
		}
		if err != nil {
			res.StartErr = err.Error()
			kit.Wait()
			env.TM.Close()
			kit.Wait()
			res.End = time.Now()
			return
		}
		kit.Wait()
		time.Sleep(time.Duration(c.SpanNs))
		kit.Wait()
		res.End = time.Now()
		bqs, err := et.BatchQueries(res.Start, res.End)
		if err != nil {
			res.HistErr = err.Error()
		}
		for _, bq := range bqs {
			var l []string
			for _, q := range bq.Queries {
				res.Hist = append(res.Hist, q.String())
				l = append(l, q.String())
			}
			res.HistPerNode = append(res.HistPerNode, l)
		}
		if c.Kind == "multi" {
			for i, col := range env.TM.BatchCollectors("t") {
				bp := edge.NewBatchPointMessage(models.Fields{"pos": int64(i)}, models.Tags{}, time.Now())
				col.CollectBatch(edge.NewBufferedBatchMessage(edge.NewBeginBatchMessage("marker", models.Tags{}, false, time.Now(), 1), []edge.BatchPointMessage{bp}, edge.NewEndBatchMessage()))
				kit.Wait()
				node := -1
				for k := range c.Multi {
					if sk := env.Diag.Sink(fmt.Sprintf("X%d", k)); sk != nil {
						for _, b := range sk.Batches() {
							if b.Name == "marker" && len(b.Points) == 1 && b.Points[0].Fields["pos"] == int64(i) {
								node = k
							}
						}
					}
				}
				res.PosToNode = append(res.PosToNode, node)
			}
		}
		env.TM.StopTask("t")
		kit.Wait()
		env.TM.Close()
		kit.Wait()
	})
	res.Leak = leak
	if pan != nil {
		res.Panic = fmt.Sprint(pan)
	}
	return res
}

// ---------------------------------------------------------------- reference: ticks

// expectedTicks lists the tick instants in (start, end] the documentation promises.
func expectedTicks(c Case, start, end time.Time) []time.Time {
	var out []time.Time
	switch {
	case c.Cron != "":
		ex := cronexpr.MustParse(c.Cron)
		cur := start
		for {
			cur = ex.Next(cur)
			if cur.IsZero() || cur.After(end) {
				break
			}
			out = append(out, cur)
		}
	case c.Align:
		e := dur(c.Every)
		cur := start.Truncate(e)
		for {
			cur = cur.Add(e)
			if cur.After(end) {
				break
			}
			if cur.After(start) {
				out = append(out, cur)
			}
		}
	default:
		e := dur(c.Every)
		cur := start
		for {
			cur = cur.Add(e)
			if cur.After(end) {
				break
			}
			out = append(out, cur)
		}
	}
	return out
}

// ---------------------------------------------------------------- reference: conditions

type row struct {
	t time.Time
	v int64
	h string
}

var userConsts = map[string]time.Time{}

// evalCond evaluates the small condition language used by the cases on one row.
func evalCond(e influxql.Expr, r row, now time.Time) (bool, error) {
	switch x := e.(type) {
	case *influxql.ParenExpr:
		return evalCond(x.Expr, r, now)
	case *influxql.BinaryExpr:
		switch x.Op {
		case influxql.AND, influxql.OR:
			a, err := evalCond(x.LHS, r, now)
			if err != nil {
				return false, err
			}
			b, err := evalCond(x.RHS, r, now)
			if err != nil {
				return false, err
			}
			if x.Op == influxql.AND {
				return a && b, nil
			}
			return a || b, nil
		}
		ref, ok := x.LHS.(*influxql.VarRef)
		if !ok {
			return false, fmt.Errorf("unsupported lhs %T in %s", x.LHS, x)
		}
		switch ref.Val {
		case "time":
			tv, err := timeOf(x.RHS, now)
			if err != nil {
				return false, err
			}
			return cmpInt(x.Op, r.t.UnixNano(), tv.UnixNano())
		case "v":
			switch l := x.RHS.(type) {
			case *influxql.IntegerLiteral:
				return cmpInt(x.Op, r.v, l.Val)
			case *influxql.NumberLiteral:
				return cmpInt(x.Op, r.v, int64(l.Val))
			}
		case "h":
			switch l := x.RHS.(type) {
			case *influxql.StringLiteral:
				switch x.Op {
				case influxql.EQ:
					return r.h == l.Val, nil
				case influxql.NEQ:
					return r.h != l.Val, nil
				}
			case *influxql.RegexLiteral:
				switch x.Op {
				case influxql.EQREGEX:
					return l.Val.MatchString(r.h), nil
				case influxql.NEQREGEX:
					return !l.Val.MatchString(r.h), nil
				}
			}
		}
	}
	return false, fmt.Errorf("unsupported expression %T %s", e, e)
}

func timeOf(e influxql.Expr, now time.Time) (time.Time, error) {
	switch l := e.(type) {
	case *influxql.TimeLiteral:
		return l.Val, nil
	case *influxql.StringLiteral:
		return time.Parse(time.RFC3339Nano, l.Val)
	case *influxql.ParenExpr:
		return timeOf(l.Expr, now)
	case *influxql.Call:
		if l.Name == "now" {
			return now, nil
		}
	case *influxql.BinaryExpr:
		a, err := timeOf(l.LHS, now)
		if err != nil {
			return a, err
		}
		d, ok := l.RHS.(*influxql.DurationLiteral)
		if !ok {
			return a, fmt.Errorf("unsupported time arithmetic %s", l)
		}
		switch l.Op {
		case influxql.SUB:
			return a.Add(-d.Val), nil
		case influxql.ADD:
			return a.Add(d.Val), nil
		}
	}
	return time.Time{}, fmt.Errorf("unsupported time operand %T %s", e, e)
}

func cmpInt(op influxql.Token, a, b int64) (bool, error) {
	switch op {
	case influxql.EQ:
		return a == b, nil
	case influxql.NEQ:
		return a != b, nil
	case influxql.LT:
		return a < b, nil
	case influxql.LTE:
		return a <= b, nil
	case influxql.GT:
		return a > b, nil
	case influxql.GTE:
		return a >= b, nil
	}
	return false, fmt.Errorf("unsupported operator %s", op)
}

// skeleton abstracts a condition to its shape: F = field/tag predicate, T = time predicate.
func skeleton(e influxql.Expr) string {
	switch x := e.(type) {
	case nil:
		return "none"
	case *influxql.ParenExpr:
		return "(" + skeleton(x.Expr) + ")"
	case *influxql.BinaryExpr:
		if x.Op == influxql.AND || x.Op == influxql.OR {
			return skeleton(x.LHS) + "_" + x.Op.String() + "_" + skeleton(x.RHS)
		}
		if ref, ok := x.LHS.(*influxql.VarRef); ok && ref.Val == "time" {
			return "T"
		}
		return "F"
	}
	return "?"
}

func parseSelect(q string) (*influxql.SelectStatement, error) {
	st, err := influxql.ParseStatement(q)
	if err != nil {
		return nil, err
	}
	s, ok := st.(*influxql.SelectStatement)
	if !ok {
		return nil, fmt.Errorf("not a select: %T", st)
	}
	return s, nil
}

// ---------------------------------------------------------------- oracle

type problem struct{ key, msg string }

func schedClass(c Case) string {
	s := "every"
	if c.Cron != "" {
		s = "cron"
	}
	if c.Align {
		s += "+align"
	}
	if c.Offset != "" {
		s += "+offset"
	}
	return s
}

var timeCallRe = regexp.MustCompile(`^time\((\w+)(?:,\s*(-?\w+))?\)$`)

// expectedDims renders the GROUP BY clause the groupBy(...) property asks for.
func expectedDims(c Case, qstart time.Time) (string, bool) {
	if c.Dims == "" {
		return "", true
	}
	var parts []string
	for _, d := range strings.Split(c.Dims, ", ") {
		switch {
		case d == "*":
			parts = append(parts, "*")
		case strings.HasPrefix(d, "'"):
			parts = append(parts, influxql.QuoteIdent(strings.Trim(d, "'")))
		default:
			m := timeCallRe.FindStringSubmatch(d)
			if m == nil {
				return "", false
			}
			l := dur(m[1])
			var off time.Duration
			if m[2] != "" {
				neg := strings.HasPrefix(m[2], "-")
				off = dur(strings.TrimPrefix(m[2], "-"))
				if neg {
					off = -off
				}
			}
			if c.AlignGroup {
				if m[2] != "" {
					return "", false // documented combination is ambiguous: not judged
				}
				off = time.Duration(qstart.UnixNano() % int64(l))
			}
			parts = append(parts, fmt.Sprintf("time(%s, %s)", influxql.FormatDuration(l), influxql.FormatDuration(off)))
		}
	}
	return strings.Join(parts, ", "), true
}

func expectedFill(c Case) (influxql.FillOption, string) {
	switch c.Fill {
	case "":
		return influxql.NullFill, ""
	case "'null'":
		return influxql.NullFill, ""
	case "'none'":
		return influxql.NoFill, ""
	case "'previous'":
		return influxql.PreviousFill, ""
	case "'linear'":
		return influxql.LinearFill, ""
	}
	return influxql.NumberFill, c.Fill
}

// checkQuery judges one issued statement for the tick at `tick`.
func checkQuery(c Case, orig *influxql.SelectStatement, q string, tick time.Time) *problem {
	st, err := parseSelect(q)
	if err != nil {
		return &problem{"issued-unparsable", fmt.Sprintf("issued statement %q does not parse: %v", q, err)}
	}
	stop := tick.Add(-dur(c.Offset))
	start := stop.Add(-dur(c.Period))
	if st.Fields.String() != orig.Fields.String() || st.Sources.String() != orig.Sources.String() {
		return &problem{"select-changed", fmt.Sprintf("fields/sources changed: %q became %q", c.query(), q)}
	}
	if (st.Target == nil) != (orig.Target == nil) {
		return &problem{"select-changed", fmt.Sprintf("target changed: %q became %q", c.query(), q)}
	}
	// condition: truth table over the boundary rows
	times := []time.Time{start, stop, tick, tick.Add(-time.Hour)}
	for _, u := range userConsts {
		times = append(times, u)
	}
	sk := skeleton(orig.Condition)
	for _, b := range times {
		for _, d := range []time.Duration{-1, 0, 1} {
			for _, v := range []int64{0, 2} {
				for _, h := range []string{"x", "y"} {
					r := row{t: b.Add(d), v: v, h: h}
					want := !r.t.Before(start) && r.t.Before(stop)
					if orig.Condition != nil {
						u, err := evalCond(orig.Condition, r, tick)
						if err != nil {
							return &problem{"harness-eval", err.Error()}
						}
						want = want && u
					}
					got, err := evalCond(st.Condition, r, tick)
					if err != nil {
						return &problem{"issued-condition-unsupported:" + sk, fmt.Sprintf("issued %q: %v", q, err)}
					}
					if got != want {
						return &problem{"condition:" + sk, fmt.Sprintf("user query %q, tick %s, period %s offset %s: issued %q selects=%v a row with time=%s v=%d h=%s; the user's condition AND time in [%s, %s) gives %v",
							c.query(), tick.UTC().Format(time.RFC3339Nano), c.Period, c.Offset, q, got, r.t.UTC().Format(time.RFC3339Nano), r.v, r.h,
							start.UTC().Format(time.RFC3339Nano), stop.UTC().Format(time.RFC3339Nano), want)}
					}
				}
			}
		}
	}
	// dimensions
	if want, judged := expectedDims(c, start); judged {
		if got := st.Dimensions.String(); got != want {
			return &problem{"dimensions:" + dimClass(c), fmt.Sprintf("groupBy(%s) alignGroup=%v start=%s: issued GROUP BY %q, want %q (%s)", c.Dims, c.AlignGroup, start.UTC().Format(time.RFC3339Nano), got, want, q)}
		}
	}
	// fill
	wantOpt, wantVal := expectedFill(c)
	gotVal := ""
	if st.Fill == influxql.NumberFill {
		gotVal = fmt.Sprint(st.FillValue)
	}
	if st.Fill != wantOpt || (wantOpt == influxql.NumberFill && !sameNumber(gotVal, wantVal)) {
		return &problem{"fill:" + c.Fill, fmt.Sprintf("fill(%s): issued %q", c.Fill, q)}
	}
	return nil
}

func sameNumber(a, b string) bool {
	var x, y float64
	fmt.Sscan(a, &x)
	fmt.Sscan(b, &y)
	return x == y
}

func dimClass(c Case) string {
	s := "plain"
	if strings.Contains(c.Dims, "time(") {
		s = "time"
		if strings.Contains(c.Dims, ", -") || regexp.MustCompile(`time\(\w+, `).MatchString(c.Dims) {
			s = "time+offset"
		}
	}
	if c.AlignGroup {
		s += "+alignGroup"
	}
	return s
}

func measurementsOf(st influxql.Statement) []*influxql.Measurement {
	var ms []*influxql.Measurement
	influxql.WalkFunc(st, func(n influxql.Node) {
		if m, ok := n.(*influxql.Measurement); ok && m != nil {
			ms = append(ms, m)
		}
	})
	return ms
}

func check(t *testing.T, c Case, r *rep.R) []problem {
	var ps []problem
	add := func(k, m string) { ps = append(ps, problem{k, m}) }
	orig, err := parseSelect(c.query())
	if err != nil && c.Kind != "dbrp" {
		panic(fmt.Sprintf("case query %q: %v", c.query(), err))
	}
	res := run(t, c)
	if r != nil {
		r.Add("evaluations", 1)
		r.Add("queries_checked", int64(len(res.Live)+len(res.Hist)))
		r.Add("transitions", int64(len(res.Live)))
	}
	if res.Panic != "" {
		add("panic", res.Panic)
		return ps
	}
	if res.Leak != "" {
		add("leak:"+c.Kind, "goroutines left after the task was stopped: "+rep.Short(res.Leak))
	}
	declared := map[[2]string]bool{}
	for _, d := range c.DBRPs {
		declared[d] = true
	}
	// whatever was issued may only touch declared db/rps, in every clause
	checkDBRP := func(q, what string) {
		qq, err := influxql.ParseQuery(q)
		if err != nil {
			add("issued-unparsable", fmt.Sprintf("%s statement %q: %v", what, q, err))
			return
		}
		if len(qq.Statements) != 1 {
			add("dbrp:multiple-statements", fmt.Sprintf("%s text %q holds %d statements", what, q, len(qq.Statements)))
		}
		for _, st := range qq.Statements {
			if _, ok := st.(*influxql.SelectStatement); !ok {
				add("dbrp:not-a-select", fmt.Sprintf("%s statement %q is a %T", what, q, st))
				continue
			}
			for _, m := range measurementsOf(st) {
				if !declared[[2]string{m.Database, m.RetentionPolicy}] {
					cl := "source"
					if sel := st.(*influxql.SelectStatement); sel.Target != nil && sel.Target.Measurement == m {
						cl = "into-target"
					}
					add("dbrp:undeclared-"+cl, fmt.Sprintf("task declared %v but %s statement %q touches %q.%q", c.DBRPs, what, q, m.Database, m.RetentionPolicy))
				}
			}
		}
	}
	for _, l := range res.Live {
		checkDBRP(l.Q, "live")
	}
	for _, h := range res.Hist {
		checkDBRP(h, "historical")
	}
	for _, h := range res.ColdHist {
		checkDBRP(h, "historical (task never started)")
	}
	if c.Kind == "multi" {
		return append(ps, checkMulti(c, res)...)
	}
	if c.Kind == "dbrp" {
		// positive direction: a query touching only declared db/rps must be accepted
		if err == nil && res.StartErr != "" && c.Select2 == "" {
			ok := true
			for _, m := range measurementsOf(orig) {
				if !declared[[2]string{m.Database, m.RetentionPolicy}] {
					ok = false
				}
			}
			if ok && orig.Target == nil && !hasSubquery(orig) && !strings.Contains(c.Select, ";") {
				add("dbrp:declared-rejected", fmt.Sprintf("task declared %v, query %q rejected: %s", c.DBRPs, c.query(), res.StartErr))
			}
		}
		if res.StartErr == "" && r != nil {
			r.Distinct("nontrivial", c.query()+fmt.Sprint(c.DBRPs))
		}
		return ps
	}
	if res.StartErr != "" {
		add("start-rejected:"+c.Kind, fmt.Sprintf("script rejected: %s\n%s", res.StartErr, c.script()))
		return ps
	}
	// ticks
	want := expectedTicks(c, res.Start, res.End)
	var got []time.Time
	for _, l := range res.Live {
		got = append(got, l.At)
	}
	if c.SlowNth > 0 {
		// ticks are dropped while the slow query runs; afterwards the schedule is back on the clock: the last query
		// of the span is issued on a tick and covers [tick-offset-period, tick-offset)
		if len(res.Live) < c.SlowNth+1 {
			add("slow-query-no-later-tick:"+schedClass(c), fmt.Sprintf("task with %s whose query #%d took %s: only %d queries in %s", schedDesc(c), c.SlowNth, c.SlowFor, len(res.Live), time.Duration(c.SpanNs)))
			return ps
		}
		last := res.Live[len(res.Live)-1]
		if p := checkQuery(c, orig, last.Q, last.At); p != nil {
			add("slow-query-schedule-lags:"+schedClass(c), fmt.Sprintf("task with %s whose query #%d took %s: the query issued at %s (long after) reads: %s", schedDesc(c), c.SlowNth, c.SlowFor, fmtT(last.At), p.msg))
		}
		if r != nil {
			r.Distinct("nontrivial", c.script()+fmt.Sprint(c.PhaseNs, c.SlowNth, c.SlowFor))
		}
		return ps
	}
	if !sameTimes(got, want) {
		add("live-ticks:"+schedClass(c), fmt.Sprintf("task started at %s with %s: queries were issued at %s, the schedule promises %s",
			fmtT(res.Start), schedDesc(c), fmtTs(got), fmtTs(want)))
	}
	// every live query: range, condition, dimensions, fill
	for _, l := range res.Live {
		if p := checkQuery(c, orig, l.Q, l.At); p != nil {
			ps = append(ps, *p)
			break
		}
	}
	// history = what live ticks of that span would have issued (per the documented schedule)
	if res.HistErr != "" {
		add("history-error", res.HistErr)
	} else {
		if len(res.Hist) != len(want) {
			add("history-ticks:"+schedClass(c), fmt.Sprintf("task started at %s with %s: BatchQueries(%s, %s) lists %d queries, the schedule has %d ticks %s in that span; listed: %v",
				fmtT(res.Start), schedDesc(c), fmtT(res.Start), fmtT(res.End), len(res.Hist), len(want), fmtTs(want), res.Hist))
		} else {
			for i, h := range res.Hist {
				if p := checkQuery(c, orig, h, want[i]); p != nil {
					ps = append(ps, problem{"history-" + p.key, "historical query " + fmt.Sprint(i) + ": " + p.msg})
					break
				}
			}
		}
		// and literally the same statements as the live run where both exist
		if sameTimes(got, want) && len(res.Hist) == len(res.Live) {
			for i := range res.Hist {
				if res.Hist[i] != res.Live[i].Q {
					add("history-differs:"+dimClass(c), fmt.Sprintf("tick %s: live query %q, historical query %q", fmtT(res.Live[i].At), res.Live[i].Q, res.Hist[i]))
					break
				}
			}
		}
	}
	if r != nil && len(res.Live) > 0 {
		r.Distinct("nontrivial", c.script()+fmt.Sprint(c.PhaseNs))
	}
	return ps
}

// checkMulti: a task with several query nodes: BatchQueries has one entry per node, in node order, holding that node's
// queries for the ticks of its own schedule (an entry may be empty)
func checkMulti(c Case, res result) []problem {
	var ps []problem
	if res.StartErr != "" {
		return []problem{{"start-rejected:multi", res.StartErr}}
	}
	if res.HistErr != "" {
		return []problem{{"history-error", res.HistErr}}
	}
	if len(res.HistPerNode) != len(c.Multi) || len(res.PosToNode) != len(c.Multi) {
		return []problem{{"history-multi:entries", fmt.Sprintf("task with %d query nodes %+v: BatchQueries(%s, %s) returned %d entries, the task has %d batch collectors: %v", len(c.Multi), c.Multi, fmtT(res.Start), fmtT(res.End), len(res.HistPerNode), len(res.PosToNode), res.HistPerNode)}}
	}
	seen := map[int]bool{}
	for _, k := range res.PosToNode {
		if k < 0 || seen[k] {
			return []problem{{"internal", fmt.Sprintf("cannot tell which node each batch collector feeds: %v", res.PosToNode)}}
		}
		seen[k] = true
	}
	for i := range c.Multi {
		// entry i is replayed into collector i, which feeds node PosToNode[i]
		n := c.Multi[res.PosToNode[i]]
		nc := Case{Every: n.Every, Cron: n.Cron}
		want := expectedTicks(nc, res.Start, res.End)
		if len(res.HistPerNode[i]) != len(want) {
			ps = append(ps, problem{"history-multi:ticks", fmt.Sprintf("query node %d of %+v: %d historical queries for %d ticks %s: %v", i, c.Multi, len(res.HistPerNode[i]), len(want), fmtTs(want), res.HistPerNode[i])})
			break
		}
		for _, q := range res.HistPerNode[i] {
			if !strings.Contains(q, "."+n.M+" ") && !strings.Contains(q, "\""+n.M+"\"") {
				ps = append(ps, problem{"history-multi:wrong-node", fmt.Sprintf("entry %d of BatchQueries goes to batch collector %d, which feeds the node reading %q, but lists %q (nodes %+v)", i, i, n.M, q, c.Multi)})
				return ps
			}
		}
		// the live run agrees
		live := 0
		for _, l := range res.Live {
			if strings.Contains(l.Q, "."+n.M+" ") || strings.Contains(l.Q, "\""+n.M+"\"") {
				live++
			}
		}
		if live != len(want) {
			ps = append(ps, problem{"live-multi:ticks", fmt.Sprintf("query node %d of %+v issued %d live queries for %d ticks", i, c.Multi, live, len(want))})
			break
		}
	}
	return ps
}

func multiCases() []Case {
	var cs []Case
	never := "0 0 0 1 1 * 2031" // no tick inside any span used here
	combos := [][]NodeSched{
		{{"a", "", never}, {"b", "10s", ""}, {"c", "7s", ""}},
		{{"a", "10s", ""}, {"b", "", never}, {"c", "7s", ""}},
		{{"a", "10s", ""}, {"b", "7s", ""}, {"c", "", never}},
		{{"a", "", never}, {"b", "", never}, {"c", "7s", ""}},
		{{"a", "1m", ""}, {"b", "10s", ""}, {"c", "", "*/15 * * * * * *"}},
		{{"a", "10s", ""}, {"b", "10s", ""}, {"c", "10s", ""}},
	}
	for _, m := range combos {
		for _, ph := range []int64{0, 1, int64(3 * time.Second), int64(9*time.Second) + 999999999} {
			for _, span := range []int64{int64(5 * time.Second), int64(12 * time.Second), int64(36 * time.Second)} {
				cs = append(cs, Case{Kind: "multi", Select: sel, Multi: m, PhaseNs: ph, SpanNs: span, DBRPs: [][2]string{{"db", "rp"}}})
			}
		}
	}
	return cs
}

func slowCases() []Case {
	var cs []Case
	base := Case{Kind: "sched", Select: sel, Where: `"h" = 'x'`, DBRPs: [][2]string{{"db", "rp"}}, Period: "10s"}
	for _, e := range []string{"10s", "7s"} {
		for _, al := range []bool{false, true} {
			for _, nth := range []int{1, 2} {
				for _, f := range []string{"1500ms", "15s", "25s", "30s"} {
					for _, ph := range []int64{0, 1, int64(dur(e)) / 2, int64(dur(e)) - 1} {
						for _, o := range []string{"", "3s"} {
							c := base
							c.Every, c.Align, c.SlowNth, c.SlowFor, c.PhaseNs, c.Offset = e, al, nth, f, ph, o
							c.SpanNs = int64(dur(e))*9 + int64(dur(e))/2
							cs = append(cs, c)
						}
					}
				}
			}
		}
	}
	return cs
}

func hasSubquery(s *influxql.SelectStatement) bool {
	for _, src := range s.Sources {
		if _, ok := src.(*influxql.SubQuery); ok {
			return true
		}
	}
	return false
}

func schedDesc(c Case) string {
	s := "every(" + c.Every + ")"
	if c.Cron != "" {
		s = "cron('" + c.Cron + "')"
	}
	if c.Align {
		s += ".align()"
	}
	return s
}

func sameTimes(a, b []time.Time) bool {
	if len(a) != len(b) {
		return false
	}
	for i := range a {
		if !a[i].Equal(b[i]) {
			return false
		}
	}
	return true
}

func fmtT(t time.Time) string { return t.UTC().Format("15:04:05.999999999") }
func fmtTs(ts []time.Time) string {
	var s []string
	for _, t := range ts {
		s = append(s, fmtT(t))
	}
	return "[" + strings.Join(s, " ") + "]"
}

// ---------------------------------------------------------------- enumeration

const sel = `SELECT mean("v") FROM "db"."rp"."m"`

var atoms = []string{
	`"v" > 1`,
	`"h" = 'x'`,
	`"h" =~ /^x/`,
	`time > now() - 1h`,
	`time >= '1999-12-31T23:59:55Z'`,
	`time < '2000-01-01T00:00:25Z'`,
}

func init() {
	userConsts["lo"] = time.Date(1999, 12, 31, 23, 59, 55, 0, time.UTC)
	userConsts["hi"] = time.Date(2000, 1, 1, 0, 0, 25, 0, time.UTC)
}

func conditions(maxLeaves int) []string {
	out := []string{""}
	ops := []string{"AND", "OR"}
	for _, a := range atoms {
		out = append(out, a, "("+a+")")
	}
	if maxLeaves >= 2 {
		for _, a := range atoms {
			for _, b := range atoms {
				for _, o := range ops {
					out = append(out, a+" "+o+" "+b, "("+a+" "+o+" "+b+")")
				}
			}
		}
	}
	if maxLeaves >= 3 {
		for _, a := range atoms {
			for _, b := range atoms {
				for _, c := range atoms {
					for _, o1 := range ops {
						for _, o2 := range ops {
							out = append(out,
								a+" "+o1+" "+b+" "+o2+" "+c,
								"("+a+" "+o1+" "+b+") "+o2+" "+c,
								a+" "+o1+" ("+b+" "+o2+" "+c+")",
								"("+a+" "+o1+" "+b+" "+o2+" "+c+")")
						}
					}
				}
			}
		}
	}
	return out
}

type qcfg struct {
	Dims, Fill string
	AlignGroup bool
}

var qcfgs = []qcfg{
	{"", "", false},
	{"time(10s), 'h'", "0", false},
	{"time(4s)", "", true},
	{"*", "'none'", false},
	{"time(10s, 3s)", "'previous'", false},
	{"'h', 'g'", "'null'", false},
	{"time(4s), *", "1.5", true},
	{"time(10s, -2s), 'h'", "'linear'", false},
}

func condCases() []Case {
	var cs []Case
	maxLeaves := 3
	conds := conditions(maxLeaves)
	for i, w := range conds {
		var qs []qcfg
		if rep.Thorough() {
			qs = qcfgs
		} else {
			qs = []qcfg{qcfgs[i%len(qcfgs)], qcfgs[(i/len(qcfgs)+3)%len(qcfgs)]}
			if qs[0] == qs[1] {
				qs = qs[:1]
			}
		}
		for _, qc := range qs {
			cs = append(cs, Case{Kind: "cond", Select: sel, Where: w, Dims: qc.Dims, Fill: qc.Fill, AlignGroup: qc.AlignGroup,
				Every: "10s", Period: "10s", PhaseNs: int64(3 * time.Second), SpanNs: int64(31 * time.Second), DBRPs: [][2]string{{"db", "rp"}}})
		}
	}
	return cs
}

func schedCases() []Case {
	var cs []Case
	base := Case{Kind: "sched", Select: sel, Where: `"h" = 'x'`, DBRPs: [][2]string{{"db", "rp"}}}
	everies := []string{"10s", "7s", "1m"}
	periods := []string{"10s", "5s", "1h"}
	offsets := []string{"", "3s", "1m"}
	phasesFrac := []int64{0, 1, 2, 3, 4, 5, 6, 7} // eighths of `every`
	extra := []int64{0, 1, 999999999}             // plus nanoseconds
	for _, e := range everies {
		for _, al := range []bool{false, true} {
			for _, p := range periods {
				for _, o := range offsets {
					for _, f := range phasesFrac {
						for _, x := range extra {
							if !rep.Thorough() && (p == "1h" && o == "1m") {
								continue
							}
							c := base
							c.Every, c.Align, c.Period, c.Offset = e, al, p, o
							c.PhaseNs = int64(dur(e))*f/8 + x
							c.SpanNs = int64(dur(e))*3 + int64(dur(e))/2
							for _, ag := range []qcfg{{"", "", false}, {"time(4s)", "", true}} {
								c.Dims, c.AlignGroup = ag.Dims, ag.AlignGroup
								cs = append(cs, c)
							}
						}
					}
				}
			}
		}
	}
	crons := []string{"*/15 * * * * * *", "0 */2 * * * * *", "30 * * * * * *", "5,50 * * * * * *"}
	for _, cr := range crons {
		for _, o := range offsets {
			for _, ph := range []int64{0, 1, int64(7 * time.Second), int64(15 * time.Second), int64(59*time.Second) + 999999999, int64(61 * time.Second)} {
				c := base
				c.Cron, c.Period, c.Offset, c.PhaseNs = cr, "30s", o, ph
				c.SpanNs = int64(5 * time.Minute)
				cs = append(cs, c)
				c.Dims, c.AlignGroup = "time(4s)", true
				cs = append(cs, c)
			}
		}
	}
	return cs
}

func dbrpCases() []Case {
	var cs []Case
	selects := []string{
		`SELECT v FROM "db"."rp"."m"`,
		`SELECT v FROM "db"."rp"./.*/`,
		`SELECT v FROM "other"."rp"."m"`,
		`SELECT v FROM "db"."other"."m"`,
		`SELECT v FROM "other"."rp"./.*/`,
		`SELECT v FROM "m"`,
		`SELECT v FROM "rp"."m"`,
		`SELECT v FROM "db".."m"`,
		`SELECT v FROM "db"."rp"."m", "other"."rp"."n"`,
		`SELECT v FROM "db"."rp"."m", "db"."other"."n"`,
		`SELECT v FROM "db"."rp"."m", "db"."rp"."n", "db"."other"."o"`,
		`SELECT v FROM "db"."rp"."m", "db2"."rp2"."n"`,
		`SELECT v FROM (SELECT v FROM "other"."rp"."m")`,
		`SELECT v FROM (SELECT v FROM "db"."rp"."m")`,
		`SELECT v FROM "db"."rp"."m", (SELECT v FROM "other"."rp"."m")`,
		`SELECT v INTO "other"."rp"."x" FROM "db"."rp"."m"`,
		`SELECT v INTO "db"."rp"."x" FROM "db"."rp"."m"`,
		`SELECT v INTO "x" FROM "db"."rp"."m"`,
		`SELECT v FROM "db"."rp"."m"; SELECT v FROM "other"."rp"."m"`,
		`SELECT v FROM "db"."rp"."m"; DROP DATABASE "db"`,
		`DROP DATABASE "db"`,
		`SHOW DATABASES`,
		`SELECT v FROM "DB"."rp"."m"`,
		`SELECT v FROM "db "."rp"."m"`,
	}
	decls := [][][2]string{
		{{"db", "rp"}},
		{{"db", "rp"}, {"db2", "rp2"}},
		{{"db", "other"}},
		{},
	}
	for _, s := range selects {
		for _, d := range decls {
			for _, w := range []string{"", `"v" > 1 OR "h" = 'x'`} {
				if w != "" && strings.Contains(s, ";") {
					continue
				}
				if w != "" && !strings.HasPrefix(s, "SELECT") {
					continue
				}
				cs = append(cs, Case{Kind: "dbrp", Select: s, Where: w, Every: "10s", Period: "10s", SpanNs: int64(11 * time.Second), DBRPs: d})
			}
		}
	}
	// two query nodes in one task: every node's sources count
	pairs := [][2]string{
		{`SELECT v FROM "db"."rp"."m"`, `SELECT v FROM "other"."rp"."m"`},
		{`SELECT v FROM "other"."rp"."m"`, `SELECT v FROM "db"."rp"."m"`},
		{`SELECT v FROM "db"."rp"."m"`, `SELECT v FROM "db2"."rp2"."n"`},
		{`SELECT v FROM "db2"."rp2"."n"`, `SELECT v FROM "db"."rp"."m"`},
		{`SELECT v FROM "db"."rp"."m"`, `SELECT v FROM "db"."rp"."n"`},
		{`SELECT v FROM "db"."rp"."m"`, `SELECT v INTO "other"."rp"."x" FROM "db"."rp"."m"`},
	}
	for _, pr := range pairs {
		for _, d := range decls {
			cs = append(cs, Case{Kind: "dbrp", Select: pr[0], Select2: pr[1], Every: "10s", Period: "10s", SpanNs: int64(11 * time.Second), DBRPs: d})
		}
	}
	return cs
}

func caseKey(c Case) string {
	return fmt.Sprintf("%s|%s|%s|%s|%v|%v|%s|%s|%s|%s|%d|%d|%s|%v|%d", c.Kind, c.query(), c.Dims, c.Fill, c.AlignGroup, c.Align, c.Every, c.Cron, c.Period, c.Offset, c.PhaseNs, c.SlowNth, c.SlowFor, c.Multi, c.SpanNs)
}

func TestCheck(t *testing.T) {
	r := rep.New("C16", "model_checking",
		"batch query ranges, schedules and db/rp confinement on the real task: every case defines and starts a real batch task (TaskMaster, QueryNode, tickers) inside a virtual-time bubble with a recording InfluxDB client, lets 3+ ticks pass, then asks ExecutingTask.BatchQueries for the same span. (cond) ALL user WHERE clauses with up to 3 predicates out of 6 (field, tag, regex, now()-relative, absolute lower/upper time bound) joined by AND/OR with every parenthesisation, crossed with groupBy/fill/alignGroup settings: every issued statement is re-parsed and its condition is compared, on a truth table of rows at +-1ns around every boundary, with (user condition AND start<=time<stop); select list, sources, GROUP BY and fill are compared with what was asked. (sched) every in {7s,10s,1m} x align x period x offset x 24 start phases (eighths of the interval, +0/1ns/999999999ns) and 4 cron expressions x 6 phases: live tick instants equal the documented schedule, each query's range is [tick-offset-period, tick-offset), and the historical list equals the live list statement for statement. (dbrp) 24 FROM/INTO/multi-statement shapes and 6 two-query-node tasks x 4 declared db/rp sets: nothing that reaches InfluxDB touches an undeclared db/rp in any clause (also not in the list an executing task that was never started hands to record/replay), and queries confined to declared db/rps are accepted. (slow) every in {10s,7s} x align x the 1st/2nd query taking 1.5s/15s/25s/30s x 4 phases x offset: ticks are dropped meanwhile, but the last query of the span is issued on a tick and reads exactly that tick's range (no lasting lag). (multi) tasks with three query nodes on different schedules, one or two of them without any tick in the span: BatchQueries has one entry per node, in node order, with that node's own ticks. states = distinct cases, transitions = live queries issued")
	defer r.Write()
	r.Assumption("InfluxDB answers instantly and with an empty result; slow queries that make the ticker drop ticks are out of scope")
	r.Assumption("alignGroup together with an explicit time(d, offset) is not judged (the documentation does not fix the result)")
	r.Assumption("cron tick instants are taken from the cronexpr library itself (reference for kapacitor's use of it, not for the library)")

	if rep.ReplayPath() != "" {
		var c Case
		if err := rep.LoadReplay(&c); err != nil {
			t.Fatal(err)
		}
		for _, p := range check(t, c, r) {
			r.Violation(p.key, p.msg, c)
		}
		return
	}
	var all []Case
	all = append(all, dbrpCases()...)
	all = append(all, schedCases()...)
	all = append(all, slowCases()...)
	all = append(all, multiCases()...)
	all = append(all, condCases()...)
	// interleave kinds so that a deadline cuts all of them evenly
	sort.SliceStable(all, func(i, j int) bool { return false })
	r.Note("cases_total", len(all))
	for n, c := range all {
		if !rep.Mine(n) {
			continue
		}
		if r.Expired() {
			r.Cap("deadline")
			break
		}
		rep.Current(c)
		r.Add("states", 1)
		r.Add("cases_"+c.Kind, 1)
		for _, p := range check(t, c, r) {
			r.Violation(p.key, p.msg, c)
		}
		if r.WantSample() && n%997 == 5 {
			r.Sample(map[string]any{"script": c.script(), "phase_ns": c.PhaseNs})
		}
	}
}
