package c05

import (
	"bufio"
	"bytes"
	"encoding/binary"
	"fmt"
	"io"
	"strings"
	"testing"
	"time"

	"github.com/influxdata/kapacitor/edge"
	"github.com/influxdata/kapacitor/keyvalue"
	"github.com/influxdata/kapacitor/models"
	"github.com/influxdata/kapacitor/udf"
	"github.com/influxdata/kapacitor/udf/agent"
	"github.com/influxdata/kapacitor/zz_verif/kit"
	"github.com/influxdata/kapacitor/zz_verif/rep"
)

// what a misbehaving UDF peer may put on the socket
type badMsg struct {
	Name  string
	Bytes func() []byte
}

func frame(m *agent.Response) []byte {
	var b bytes.Buffer
	agent.WriteMessage(m, &b)
	return b.Bytes()
}

func uvarint(x uint64) []byte {
	b := make([]byte, binary.MaxVarintLen64)
	return b[:binary.PutUvarint(b, x)]
}

var goodPoint = &agent.Point{Time: 5, Name: "m", Group: "", Tags: map[string]string{"h": "a"}, FieldsInt: map[string]int64{"v": 1}}

var badMsgs = []badMsg{
	{"empty-response", func() []byte { return frame(&agent.Response{}) }},
	{"end-without-begin", func() []byte {
		return frame(&agent.Response{Message: &agent.Response_End{End: &agent.EndBatch{Name: "m", Tmax: 7}}})
	}},
	{"begin-negative-size", func() []byte {
		return frame(&agent.Response{Message: &agent.Response_Begin{Begin: &agent.BeginBatch{Name: "m", Size: -1}}})
	}},
	{"begin-huge-size", func() []byte {
		return frame(&agent.Response{Message: &agent.Response_Begin{Begin: &agent.BeginBatch{Name: "m", Size: 1 << 62}}})
	}},
	{"begin", func() []byte {
		return frame(&agent.Response{Message: &agent.Response_Begin{Begin: &agent.BeginBatch{Name: "m", Size: 1}}})
	}},
	{"point", func() []byte { return frame(&agent.Response{Message: &agent.Response_Point{Point: goodPoint}}) }},
	{"empty-point", func() []byte { return frame(&agent.Response{Message: &agent.Response_Point{Point: &agent.Point{}}}) }},
	{"end", func() []byte {
		return frame(&agent.Response{Message: &agent.Response_End{End: &agent.EndBatch{Name: "m", Tmax: 7, Tags: map[string]string{"h": "a"}}}})
	}},
	{"unsolicited-snapshot", func() []byte {
		return frame(&agent.Response{Message: &agent.Response_Snapshot{Snapshot: &agent.SnapshotResponse{Snapshot: []byte{1}}}})
	}},
	{"unsolicited-init-twice", func() []byte {
		m := frame(&agent.Response{Message: &agent.Response_Init{Init: &agent.InitResponse{Success: false, Error: "x"}}})
		return append(append([]byte(nil), m...), m...)
	}},
	{"unsolicited-info-restore", func() []byte {
		return append(frame(&agent.Response{Message: &agent.Response_Info{Info: &agent.InfoResponse{}}}), frame(&agent.Response{Message: &agent.Response_Restore{Restore: &agent.RestoreResponse{}}})...)
	}},
	{"error-response", func() []byte {
		return frame(&agent.Response{Message: &agent.Response_Error{Error: &agent.ErrorResponse{Error: "boom"}}})
	}},
	{"keepalive", func() []byte {
		return frame(&agent.Response{Message: &agent.Response_Keepalive{Keepalive: &agent.KeepaliveResponse{Time: -1}}})
	}},
	{"garbage-ff", func() []byte { return bytes.Repeat([]byte{0xff}, 12) }},
	{"garbage-frame", func() []byte { return []byte{4, 0xde, 0xad, 0xbe, 0xef} }},
	{"length-2^63", func() []byte { return uvarint(1 << 63) }},
	{"length-2^62", func() []byte { return uvarint(1 << 62) }},
	{"truncated-frame-then-silence", func() []byte { return []byte{9, 1, 2} }},
}

type UDFCase struct {
	Mode  string // stream | batch
	Seq   []int  // indices into badMsgs, sent after the first data message arrives
	Close bool   // the peer closes its side after the sequence (else it keeps reading and stays silent)
	Deaf  bool   // the peer stops reading after the sequence
	Late  int    // a well-behaved echoing peer that writes this many more responses after its input was closed (flush on EOF)
}

func (c UDFCase) String() string {
	var s []string
	for _, i := range c.Seq {
		s = append(s, badMsgs[i].Name)
	}
	if c.Late > 0 {
		return fmt.Sprintf("%s UDF echoes every point and writes %d more responses after its input was closed", c.Mode, c.Late)
	}
	end := "then stays silent"
	if c.Close {
		end = "then closes the connection"
	}
	if c.Deaf {
		end += " and stops reading"
	}
	return fmt.Sprintf("%s UDF answers the first data with [%s] %s", c.Mode, strings.Join(s, ", "), end)
}

// serveBad: a peer that follows the protocol for info/init and then misbehaves
func serveBad(c UDFCase) func(in io.ReadCloser, out io.WriteCloser) {
	return func(in io.ReadCloser, rawOut io.WriteCloser) {
		defer in.Close()
		// the peer's writes never block (an operating system buffers a pipe or socket; io.Pipe does not)
		out := newBufferedWriter(rawOut)
		br := bufio.NewReader(in)
		var buf []byte
		sent := false
		for {
			req := &agent.Request{}
			if err := agent.ReadMessage(&buf, br, req); err != nil {
				for i := 0; i < c.Late; i++ {
					out.Write(frame(&agent.Response{Message: &agent.Response_Point{Point: goodPoint}}))
				}
				out.Close()
				return
			}
			switch m := req.Message.(type) {
			case *agent.Request_Init:
				agent.WriteMessage(&agent.Response{Message: &agent.Response_Init{Init: &agent.InitResponse{Success: true}}}, out)
			case *agent.Request_Snapshot:
				if !sent {
					agent.WriteMessage(&agent.Response{Message: &agent.Response_Snapshot{Snapshot: &agent.SnapshotResponse{Snapshot: []byte{1}}}}, out)
				}
			case *agent.Request_Keepalive:
				if !sent {
					agent.WriteMessage(&agent.Response{Message: &agent.Response_Keepalive{Keepalive: &agent.KeepaliveResponse{Time: m.Keepalive.Time}}}, out)
				}
			case *agent.Request_Point, *agent.Request_Begin:
				if c.Late > 0 {
					if pm, ok := m.(*agent.Request_Point); ok && c.Mode == "stream" {
						out.Write(frame(&agent.Response{Message: &agent.Response_Point{Point: pm.Point}}))
					}
					continue
				}
				if !sent {
					sent = true
					for _, i := range c.Seq {
						if _, err := out.Write(badMsgs[i].Bytes()); err != nil {
							break
						}
					}
					if c.Close {
						out.Close()
					}
					if c.Deaf {
						select {} // never reads again
					}
				}
			}
		}
	}
}

// bufferedWriter queues writes without bound and pumps them to w from a goroutine of its own.
type bufferedWriter struct {
	w  io.WriteCloser
	ch chan []byte
}

func newBufferedWriter(w io.WriteCloser) *bufferedWriter {
	b := &bufferedWriter{w: w, ch: make(chan []byte, 1024)}
	go func() {
		for p := range b.ch {
			if p == nil {
				b.w.Close()
				return
			}
			if _, err := b.w.Write(p); err != nil {
				return
			}
		}
	}()
	return b
}
func (b *bufferedWriter) Write(p []byte) (int, error) {
	select {
	case b.ch <- append([]byte(nil), p...):
	default:
	}
	return len(p), nil
}
func (b *bufferedWriter) Close() error {
	select {
	case b.ch <- nil:
	default:
	}
	return nil
}

type udfDiag struct{ errs *[]string }

func (d udfDiag) Error(msg string, err error, ctx ...keyvalue.T) {
	*d.errs = append(*d.errs, msg+": "+fmt.Sprint(err))
}
func (d udfDiag) UDFLog(msg string) {}

// runUDF drives the real udf.Server (the component that talks to the peer, in goroutines of its own) against the
// misbehaving peer. The UDF node above it is left out on purpose: its abort callback waits, holding the server's
// mutex, for the next point to arrive, and a goroutine blocked on a mutex stops virtual time.
func runUDF(t *testing.T, c UDFCase, r *rep.R) []problem {
	var ps []problem
	cls := c.Mode
	var errs []string
	var initErr string
	stopped, abortStuck := false, false
	got := 0
	leak, pan := kit.Bubble(t, func() {
		ar, kw := io.Pipe()
		kr, aw := io.Pipe()
		go serveBad(c)(ar, aw)
		aborted := make(chan struct{})
		feederDone := make(chan struct{})
		srv := udf.NewServer("t", "n", bufio.NewReader(kr), kw, udfDiag{&errs}, 2*time.Second,
			// as the UDF node does: tell the feeder and wait until it has stopped writing to In()
			func() { close(aborted); <-feederDone },
			func() { kw.Close(); kr.Close() })
		if err := srv.Start(); err != nil {
			initErr = err.Error()
			return
		}
		if err := srv.Init(nil); err != nil {
			initErr = err.Error()
		}
		go func() {
			for range srv.Out() {
				got++
			}
		}()
		for i := 0; i < 3 && initErr == ""; i++ {
			tm := kit.T0.Add(time.Duration(i+1) * time.Second)
			var m edge.Message = edge.NewPointMessage("m", "db", "rp", models.Dimensions{}, models.Fields{"v": int64(i)}, models.Tags{"h": "a"}, tm)
			if c.Mode == "batch" {
				m = edge.NewBufferedBatchMessage(edge.NewBeginBatchMessage("m", models.Tags{"h": "a"}, false, tm, 1),
					[]edge.BatchPointMessage{edge.NewBatchPointMessage(models.Fields{"v": int64(i)}, models.Tags{"h": "a"}, tm)}, edge.NewEndBatchMessage())
			}
			stop := false
			select {
			case <-aborted:
				stop = true
			default:
				select {
				case srv.In() <- m:
				case <-aborted:
					stop = true
				}
			}
			if stop {
				break
			}
			// keepalive timeouts, kill callbacks. The wait ends at once when the server aborts: its abort callback
			// waits for this feeder while holding the server's mutex, and a second aborting goroutine blocked
			// on that mutex would freeze virtual time (a mutex wait is not a durable block for synctest)
			select {
			case <-time.After(5 * time.Second):
			case <-aborted:
				stop = true
			}
			if stop {
				break
			}
		}
		close(feederDone)
		time.Sleep(20 * time.Second)
		if !srv.VerifMuFree() {
			// an abort is still in progress, holding the server's mutex: every Stop/Abort/Snapshot would block
			// behind it. Cut the connection (what killing the process would do) and look again.
			abortStuck = true
			kw.Close()
			kr.Close()
			ar.Close()
			aw.Close()
			time.Sleep(20 * time.Second)
		}
		if srv.VerifMuFree() {
			srv.Snapshot()
			srv.Stop()
			srv.WaitIO()
			stopped = true
		}
		kw.Close()
		kr.Close()
		ar.Close()
		aw.Close()
		kit.Wait()
		time.Sleep(30 * time.Second)
		kit.Wait()
	})
	if r != nil {
		r.Add("evaluations", 1)
		r.Add("udf_cases", 1)
		r.Add("transitions", int64(3+len(c.Seq)))
	}
	if pan != nil {
		return []problem{{"panic:udf:" + cls + ":" + site(fmt.Sprint(pan)), fmt.Sprintf("%s: %s", c, rep.Short(fmt.Sprint(pan)))}}
	}
	if initErr != "" {
		return []problem{{"rejected:udf:" + cls, fmt.Sprintf("%s: %s", c, initErr)}}
	}
	if c.Deaf {
		cls += ":deaf-peer"
	}
	if abortStuck {
		ps = append(ps, problem{"abort-stuck:udf:" + cls, fmt.Sprintf("%s: 20s after the last data the server's abort still held its mutex (Stop, Abort and Snapshot would block behind it) until the connection was cut from outside", c)})
	}
	if strings.HasPrefix(leak, "hang:") || !stopped {
		ps = append(ps, problem{"hang:udf:" + cls, fmt.Sprintf("%s: feeding or stopping the server never returned: %s", c, rep.Short(leak))})
	} else if leak != "" && !c.Deaf {
		// (a peer that never reads again pins the goroutine writing to it until the connection is cut)
		ps = append(ps, problem{"goroutine-leak:udf:" + cls, fmt.Sprintf("%s: %s", c, rep.Short(leak))})
	}
	if len(ps) == 0 && r != nil {
		r.AddDistinct("nontrivial", 1)
	}
	return ps
}

func udfPart(t *testing.T, r *rep.R, mine func() bool, expired func() bool) {
	var seqs [][]int
	for i := range badMsgs {
		seqs = append(seqs, []int{i})
	}
	for i := range badMsgs {
		for j := range badMsgs {
			seqs = append(seqs, []int{i, j})
		}
	}
	if rep.Thorough() {
		for i := range badMsgs {
			for j := range badMsgs {
				for k := range badMsgs {
					if (i+j+k)%3 == 0 {
						seqs = append(seqs, []int{i, j, k})
					}
				}
			}
		}
	}
	for _, mode := range []string{"stream", "batch"} {
		for _, late := range []int{1, 2, 3} {
			if !mine() {
				continue
			}
			c := UDFCase{Mode: mode, Late: late}
			rep.Current(Case{Kind: "udf", UDF: &c})
			r.Add("states", 1)
			for _, p := range runUDF(t, c, r) {
				r.Violation(p.key, p.msg, Case{Kind: "udf", UDF: &c})
			}
		}
		for _, s := range seqs {
			for _, v := range []struct{ cl, deaf bool }{{false, false}, {true, false}, {false, true}} {
				if v.deaf && len(s) > 1 {
					continue
				}
				if !mine() {
					continue
				}
				if expired() {
					return
				}
				c := UDFCase{Mode: mode, Seq: s, Close: v.cl, Deaf: v.deaf}
				rep.Current(Case{Kind: "udf", UDF: &c})
				r.Add("states", 1)
				for _, p := range runUDF(t, c, r) {
					r.Violation(p.key, p.msg, Case{Kind: "udf", UDF: &c})
				}
			}
		}
	}
}
