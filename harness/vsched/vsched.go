// Package vsched is a cooperative, controlled scheduler for real goroutines of instrumented
// packages (see /verif/engine/instr). It runs inside a testing/synctest bubble: the bubble's
// main goroutine is the scheduler; every instrumented goroutine parks at a gate (vsched.Point)
// before each channel / lock / select operation and is released by the scheduler one decision
// at a time. synctest.Wait() tells the scheduler when every goroutine is parked at a gate,
// durably blocked in a real operation, or finished; virtual time only advances when the
// scheduler decides to block itself.
//
// Without an active scheduler (pass-through mode) all functions behave like the plain Go
// constructs they replace, so instrumented packages remain usable by ordinary tests.
package vsched

import (
	"fmt"
	"reflect"
	"runtime"
	"sort"
	"strings"
	"sync"
	"sync/atomic"
	"testing/synctest"
	"time"
)

type G struct {
	idle    bool // parked at an Idle gate: only picked when nothing else is enabled
	run     int  // consecutive picks of this goroutine
	sites   []string
	spin    bool // retry loop detected: deprioritised until another goroutine makes progress
	ID      string
	gid     int64
	gate    chan struct{}
	atGate  bool
	done    bool
	site    string
	selN    int // >0: parked at a select with selN cases
	rot     int // rotation chosen by the scheduler for that select
	spawned int
}

// Choice is one scheduling decision.
type Choice struct {
	Kind   string   `json:"k"` // "g" goroutine, "r" select rotation, "t" let time pass
	N      int      `json:"n"` // number of alternatives
	Pick   int      `json:"p"`
	Cost   []int    `json:"-"` // deviation cost of each alternative
	Labels []string `json:"-"`
	Chosen string   `json:"c"` // label of the pick (replay divergence check)
	// NoBranch: taken in a non-branching (setup) phase: alternatives are not explored
	NoBranch bool `json:"-"`
}

type Sched struct {
	mu              sync.Mutex
	gs              map[int64]*G
	order           []*G
	wake            chan struct{}
	last            *G
	prefix          []int
	Trace           []Choice
	Diverged        bool
	Verdict         string // "", "deadlock", "panic: ...", "horizon"
	Detail          string
	MaxSteps        int
	Horizon         time.Duration
	AllowTimeChoice bool
	steps           int
	nDone           int
	panics          []string
	noBranch        bool
	closed          map[uintptr]bool
}

const spinWindow = 24

var active atomic.Pointer[Sched]

func goid() int64 {
	var buf [64]byte
	n := runtime.Stack(buf[:], false)
	// "goroutine 123 ["
	s := buf[10:n]
	var id int64
	for _, c := range s {
		if c < '0' || c > '9' {
			break
		}
		id = id*10 + int64(c-'0')
	}
	return id
}

func (s *Sched) current() *G {
	id := goid()
	s.mu.Lock()
	g := s.gs[id]
	s.mu.Unlock()
	return g
}

// Point is a gate: the calling goroutine parks until the scheduler releases it.
func Point() {
	s := active.Load()
	if s == nil {
		return
	}
	g := s.current()
	if g == nil {
		return // a goroutine the scheduler does not know (started by un-instrumented code): not controlled
	}
	s.park(g, 0)
}

func (s *Sched) park(g *G, selN int) { s.parkAt(g, selN, callerSite()) }

func (s *Sched) parkAt(g *G, selN int, site string) {
	s.mu.Lock()
	g.atGate = true
	g.selN = selN
	g.site = site
	s.mu.Unlock()
	select {
	case s.wake <- struct{}{}:
	default:
	}
	<-g.gate
}

// callerSite: the first frame outside vsched / vsync / the runtime.
func callerSite() string {
	var pcs [12]uintptr
	n := runtime.Callers(3, pcs[:])
	frames := runtime.CallersFrames(pcs[:n])
	for {
		f, more := frames.Next()
		if !strings.Contains(f.File, "/vsched/") && !strings.Contains(f.File, "/vsync/") && !strings.Contains(f.File, "/runtime/") && !strings.HasSuffix(f.File, ".s") {
			return shortSite(f.File, f.Line)
		}
		if !more {
			return "?"
		}
	}
}

func shortSite(file string, line int) string {
	if i := strings.LastIndex(file, "/"); i >= 0 {
		file = file[i+1:]
	}
	return fmt.Sprintf("%s:%d", file, line)
}

// NoBranch switches the non-branching phase on or off: choices made while it is on always take the
// default and are not explored (deterministic setup / teardown of a harness).
func NoBranch(on bool) {
	if s := active.Load(); s != nil {
		s.mu.Lock()
		s.noBranch = on
		s.mu.Unlock()
	}
}

// Idle parks the caller until no other controlled goroutine is enabled (everything else has run to
// a blocking operation or finished).
func Idle() {
	s := active.Load()
	if s == nil {
		return
	}
	g := s.current()
	if g == nil {
		return
	}
	s.mu.Lock()
	g.idle = true
	s.mu.Unlock()
	s.parkAt(g, 0, "idle")
}

// Go starts f as a scheduler-controlled goroutine (pass-through: go f()).
func Go(f func()) {
	s := active.Load()
	if s == nil {
		go f()
		return
	}
	parent := s.current()
	pid := "x"
	idx := 0
	s.mu.Lock()
	if parent != nil {
		pid = parent.ID
		idx = parent.spawned
		parent.spawned++
	} else {
		idx = len(s.order)
	}
	g := &G{ID: fmt.Sprintf("%s.%d", pid, idx), gate: make(chan struct{})}
	s.mu.Unlock()
	ready := make(chan struct{})
	go func() {
		g.gid = goid()
		s.mu.Lock()
		s.gs[g.gid] = g
		s.order = append(s.order, g)
		s.mu.Unlock()
		close(ready)
		defer func() {
			if r := recover(); r != nil {
				buf := make([]byte, 4096)
				n := runtime.Stack(buf, false)
				s.mu.Lock()
				s.panics = append(s.panics, fmt.Sprintf("goroutine %s: %v\n%s", g.ID, r, buf[:n]))
				s.mu.Unlock()
			}
			s.mu.Lock()
			g.done = true
			g.atGate = false
			s.nDone++
			s.mu.Unlock()
			select {
			case s.wake <- struct{}{}:
			default:
			}
		}()
		// start gate: a new goroutine does not run before the scheduler picks it
		s.parkAt(g, 0, "start")
		f()
	}()
	<-ready
}

// ---------------------------------------------------------------- select

type selCase struct {
	dir  reflect.SelectDir
	ch   reflect.Value
	send reflect.Value
	set  func(v reflect.Value, ok bool)
}

type Select struct {
	cases []selCase
	def   int // index of default, -1 if none
}

func NewSelect() *Select { return &Select{def: -1} }

type RecvCase[T any] struct {
	V  T
	OK bool
}

func Recv[T any](s *Select, ch <-chan T) *RecvCase[T] {
	rc := &RecvCase[T]{}
	s.cases = append(s.cases, selCase{dir: reflect.SelectRecv, ch: reflect.ValueOf(ch), set: func(v reflect.Value, ok bool) {
		rc.OK = ok
		if ok {
			if v.IsValid() && v.CanInterface() {
				if x, isT := v.Interface().(T); isT {
					rc.V = x
					return
				}
			}
			reflect.ValueOf(&rc.V).Elem().Set(v)
		}
	}})
	return rc
}

func RecvDiscard[T any](s *Select, ch <-chan T) {
	s.cases = append(s.cases, selCase{dir: reflect.SelectRecv, ch: reflect.ValueOf(ch)})
}

// Send registers a send case. v is any value assignable to the channel's element type (the
// instrumenter cannot spell the conversion, so it is done here).
func Send[T any](s *Select, ch chan<- T, v any) {
	var zero T
	et := reflect.TypeOf(&zero).Elem()
	sv := reflect.New(et).Elem()
	if v != nil {
		sv.Set(reflect.ValueOf(v))
	}
	s.cases = append(s.cases, selCase{dir: reflect.SelectSend, ch: reflect.ValueOf(ch), send: sv})
}

func Default(s *Select) {
	s.def = len(s.cases)
	s.cases = append(s.cases, selCase{dir: reflect.SelectDefault})
}

// Wait performs the select and returns the index of the clause that fired (source order).
func (sel *Select) Wait() int {
	s := active.Load()
	var g *G
	if s != nil {
		g = s.current()
	}
	if g == nil {
		// pass-through: plain select
		cases := make([]reflect.SelectCase, len(sel.cases))
		for i, c := range sel.cases {
			cases[i] = reflect.SelectCase{Dir: c.dir, Chan: c.ch, Send: c.send}
		}
		i, v, ok := reflect.Select(cases)
		if sel.cases[i].set != nil {
			sel.cases[i].set(v, ok)
		}
		return i
	}
	n := 0
	for _, c := range sel.cases {
		if c.dir != reflect.SelectDefault {
			n++
		}
	}
	s.park(g, n)
	var comm []int
	for i, c := range sel.cases {
		if c.dir != reflect.SelectDefault {
			comm = append(comm, i)
		}
	}
	// Which cases can fire right now? (the released goroutine is the only one performing operations)
	// Only when two or more cases are ready (or cannot be probed) the polling start is a real choice.
	var ready []int
	for k, i := range comm {
		if s.probe(sel.cases[i]) {
			ready = append(ready, k)
		}
	}
	rot := 0
	if len(ready) >= 2 {
		rc := Choice{Kind: "r", N: len(ready)}
		s.mu.Lock()
		rc.NoBranch = s.noBranch
		s.mu.Unlock()
		for j, k := range ready {
			cost := 0
			if j > 0 {
				cost = 1
			}
			rc.Cost = append(rc.Cost, cost)
			rc.Labels = append(rc.Labels, fmt.Sprintf("case%d", comm[k]))
		}
		rot = ready[s.decide(&rc)]
	}
	// try phase: poll the communication cases starting at the chosen one
	for k := 0; k < len(comm); k++ {
		i := comm[(k+rot)%len(comm)]
		c := sel.cases[i]
		if !c.ch.IsValid() || c.ch.IsNil() {
			continue // nil channel: never ready
		}
		if c.dir == reflect.SelectRecv {
			v, ok := c.ch.TryRecv()
			if v.IsValid() || (!ok && chanClosed(c.ch, v)) {
				// TryRecv: (zero Value,false) = would block; (zero of elem,false) = closed
				if c.set != nil {
					c.set(v, ok)
				}
				return i
			}
		} else {
			if trySend(c.ch, c.send) {
				return i
			}
		}
	}
	if sel.def >= 0 {
		return sel.def
	}
	// blocking phase: durably blocked in a real select until another goroutine's operation enables one case
	cases := make([]reflect.SelectCase, 0, len(comm))
	for _, i := range comm {
		c := sel.cases[i]
		cases = append(cases, reflect.SelectCase{Dir: c.dir, Chan: c.ch, Send: c.send})
	}
	k, v, ok := reflect.Select(cases)
	i := comm[k]
	if sel.cases[i].set != nil {
		sel.cases[i].set(v, ok)
	}
	return i
}

// probe: can this case fire without blocking? Unbuffered channels cannot be probed without
// consuming: they count as possibly ready.
func (s *Sched) probe(c selCase) bool {
	if !c.ch.IsValid() || c.ch.IsNil() {
		return false
	}
	s.mu.Lock()
	closed := s.closed[c.ch.Pointer()]
	s.mu.Unlock()
	if closed {
		return true
	}
	if c.ch.Cap() == 0 {
		return true // rendezvous: unknown
	}
	if c.dir == reflect.SelectRecv {
		return c.ch.Len() > 0
	}
	return c.ch.Len() < c.ch.Cap()
}

// Close closes ch and remembers that it is closed (select readiness probing).
func Close[T any](ch chan T) {
	if s := active.Load(); s != nil {
		s.mu.Lock()
		if s.closed == nil {
			s.closed = map[uintptr]bool{}
		}
		s.closed[reflect.ValueOf(ch).Pointer()] = true
		s.mu.Unlock()
	}
	close(ch)
}

// chanClosed: TryRecv returned !ok; v is the zero Value when the receive would block and a valid
// zero element when the channel is closed.
func chanClosed(ch reflect.Value, v reflect.Value) bool { return v.IsValid() }

func trySend(ch, v reflect.Value) (sent bool) {
	defer func() {
		if r := recover(); r != nil {
			panic(r) // send on closed channel: propagate like the real select
		}
	}()
	return ch.TrySend(v)
}

// ---------------------------------------------------------------- scheduler loop

// Run executes body under the scheduler inside the current bubble. prefix: choices to replay;
// afterwards the default (index 0) is taken everywhere.
func Run(prefix []int, cfg Sched, body func()) *Sched {
	s := &Sched{gs: map[int64]*G{}, wake: make(chan struct{}, 1), prefix: prefix,
		MaxSteps: cfg.MaxSteps, Horizon: cfg.Horizon, AllowTimeChoice: cfg.AllowTimeChoice}
	if s.MaxSteps == 0 {
		s.MaxSteps = 20000
	}
	if s.Horizon == 0 {
		s.Horizon = time.Hour
	}
	if !active.CompareAndSwap(nil, s) {
		panic("vsched: a scheduler is already active in this process")
	}
	defer active.Store(nil)
	Go(body)
	for {
		synctest.Wait()
		s.mu.Lock()
		if len(s.panics) > 0 && s.Verdict == "" {
			s.Verdict = "panic"
			s.Detail = s.panics[0]
		}
		var enabled []*G
		all := true
		for _, g := range s.order {
			if !g.done {
				all = false
			}
			if g.atGate {
				enabled = append(enabled, g)
			}
		}
		s.mu.Unlock()
		if all {
			return s
		}
		if s.Verdict == "panic" {
			// a goroutine of the code under test panicked: stop scheduling; parked goroutines stay parked
			return s
		}
		s.steps++
		if s.steps > s.MaxSteps {
			s.Verdict = "horizon"
			s.Detail = fmt.Sprintf("more than %d scheduling steps", s.MaxSteps)
			return s
		}
		if len(enabled) == 0 {
			// everybody is blocked in a real operation: only the passage of (virtual) time can help
			if !s.sleepUntilWake() {
				s.Verdict = "deadlock"
				s.Detail = s.describe()
				return s
			}
			continue
		}
		// goroutines parked at an Idle gate run only when nothing else can
		nonIdle := enabled[:0:0]
		for _, g := range enabled {
			if !g.idle {
				nonIdle = append(nonIdle, g)
			}
		}
		if len(nonIdle) > 0 {
			enabled = nonIdle
		}
		// spinners (retry-until-success loops, e.g. a non-blocking dispatch to a busy worker) are not chosen
		// while anything else can run; if only spinners are enabled, time passes
		nonSpin := enabled[:0:0]
		for _, g := range enabled {
			if !g.spin {
				nonSpin = append(nonSpin, g)
			}
		}
		if len(nonSpin) == 0 {
			if !s.sleepUntilWake() {
				s.Verdict = "livelock"
				s.Detail = "only goroutines in retry loops are enabled and nothing else happens within the horizon\n" + s.describe()
				return s
			}
			s.mu.Lock()
			for _, g := range s.order {
				g.spin, g.run, g.sites = false, 0, nil
			}
			s.mu.Unlock()
			continue
		}
		enabled = nonSpin
		// canonical order: the goroutine that ran last first (continuing it is not a preemption), then by id
		sort.SliceStable(enabled, func(i, j int) bool {
			if (enabled[i] == s.last) != (enabled[j] == s.last) {
				return enabled[i] == s.last
			}
			return enabled[i].ID < enabled[j].ID
		})
		c := Choice{Kind: "g", N: len(enabled)}
		for i, g := range enabled {
			// deviation bounding: the default (continue the running goroutine, else the oldest enabled one)
			// is free, every other alternative is one deviation
			cost := 0
			if i > 0 {
				cost = 1
			}
			c.Cost = append(c.Cost, cost)
			c.Labels = append(c.Labels, g.ID+"@"+g.site)
		}
		s.mu.Lock()
		c.NoBranch = s.noBranch
		s.mu.Unlock()
		if s.AllowTimeChoice && !c.NoBranch {
			c.N++
			c.Cost = append(c.Cost, 1)
			c.Labels = append(c.Labels, "time")
		}
		pick := s.decide(&c)
		if pick == len(enabled) {
			// let time pass although goroutines are enabled
			s.sleepUntilWake()
			continue
		}
		g := enabled[pick]
		s.mu.Lock()
		g.atGate = false
		g.idle = false
		if s.last == g {
			g.run++
			g.sites = append(g.sites, g.site)
			if g.run >= spinWindow {
				distinct := map[string]bool{}
				for _, st := range g.sites[len(g.sites)-spinWindow:] {
					distinct[st] = true
				}
				if len(distinct) <= 4 {
					g.spin = true
				}
			}
		} else {
			// another goroutine makes progress: earlier spinners get a new chance
			for _, o := range s.order {
				o.run, o.sites = 0, nil
				if o != g {
					o.spin = false
				}
			}
		}
		s.last = g
		s.mu.Unlock()
		g.gate <- struct{}{}
	}
}

// sleepUntilWake blocks the scheduler (durably) so that virtual time can advance to the next timer.
// It returns false if nothing happened within the horizon.
func (s *Sched) sleepUntilWake() bool {
	// drain a stale wake token
	select {
	case <-s.wake:
	default:
	}
	t := time.NewTimer(s.Horizon)
	defer t.Stop()
	select {
	case <-s.wake:
		return true
	case <-t.C:
		// a timer of the code under test may have fired at the very same instant
		synctest.Wait()
		s.mu.Lock()
		defer s.mu.Unlock()
		for _, g := range s.order {
			if g.atGate {
				return true
			}
		}
		if s.nDone == len(s.order) {
			return true
		}
		return false
	}
}

func (s *Sched) decide(c *Choice) int {
	i := len(s.Trace)
	pick := 0
	if i < len(s.prefix) {
		pick = s.prefix[i]
		if pick >= c.N {
			s.Diverged = true
			pick = 0
		}
	}
	c.Pick = pick
	c.Chosen = c.Labels[pick]
	s.Trace = append(s.Trace, *c)
	return pick
}

func (s *Sched) describe() string {
	s.mu.Lock()
	defer s.mu.Unlock()
	var sb strings.Builder
	for _, g := range s.order {
		if !g.done {
			fmt.Fprintf(&sb, "goroutine %s blocked (last gate %s)\n", g.ID, g.site)
		}
	}
	buf := make([]byte, 1<<16)
	n := runtime.Stack(buf, true)
	sb.Write(buf[:n])
	return sb.String()
}

func (s *Sched) Steps() int { return s.steps }

// Panics returns the recovered panics of controlled goroutines.
func (s *Sched) Panics() []string { return s.panics }

// Active reports whether a scheduler is running (harness code may need to know).
func Active() bool { return active.Load() != nil }
