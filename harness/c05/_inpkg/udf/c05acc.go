package udf

// VerifMuFree reports whether the server's mutex is free right now (verification accessor, overlay only).
func (s *Server) VerifMuFree() bool {
	if s.mu.TryLock() {
		s.mu.Unlock()
		return true
	}
	return false
}
