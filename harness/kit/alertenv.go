package kit

import (
	"fmt"
	"os"
	"path/filepath"
	"sync"

	"github.com/influxdata/kapacitor"
	"github.com/influxdata/kapacitor/alert"
	"github.com/influxdata/kapacitor/keyvalue"
	alertservice "github.com/influxdata/kapacitor/services/alert"
	"github.com/influxdata/kapacitor/services/storage"
	bolt "go.etcd.io/bbolt"
)

// ---------------------------------------------------------------- storage

// Store is a harness-owned StorageService over a real Bolt file.
// Wrap, if set, wraps every namespace store (used for crash snapshots and fault injection).
type Store struct {
	mu        sync.Mutex
	DB        *bolt.DB
	path      string
	stores    map[string]storage.Interface
	versions  storage.Versions
	registrar *storage.StoreActionerRegistrar
	Wrap      func(ns string, s storage.Interface) storage.Interface
	Errors    []string
}

// TmpDir returns a scratch directory for this worker (under $VERIF_TMP or the OS temp dir).
func TmpDir() string {
	d := os.Getenv("VERIF_TMP")
	if d == "" {
		d = os.TempDir()
	}
	if fi, err := os.Stat("/dev/shm"); err == nil && fi.IsDir() {
		d = filepath.Join("/dev/shm", "verif-"+fmt.Sprint(os.Getpid()))
	}
	os.MkdirAll(d, 0o755)
	return d
}

// CleanupTmp removes the /dev/shm scratch directory of this process.
func CleanupTmp() {
	if fi, err := os.Stat("/dev/shm"); err == nil && fi.IsDir() {
		os.RemoveAll(filepath.Join("/dev/shm", "verif-"+fmt.Sprint(os.Getpid())))
	}
}

func OpenStore(path string) (*Store, error) {
	db, err := bolt.Open(path, 0600, &bolt.Options{NoSync: true, NoGrowSync: true, NoFreelistSync: true})
	if err != nil {
		return nil, err
	}
	s := &Store{DB: db, path: path, stores: map[string]storage.Interface{}, registrar: storage.NewStorageRegistrar()}
	s.versions = storage.NewVersions(storage.NewBolt(db, []byte("versions")))
	return s, nil
}

func (s *Store) Store(ns string) storage.Interface {
	s.mu.Lock()
	defer s.mu.Unlock()
	if st, ok := s.stores[ns]; ok {
		return st
	}
	var st storage.Interface = storage.NewBolt(s.DB, []byte(ns))
	if s.Wrap != nil {
		st = s.Wrap(ns, st)
	}
	s.stores[ns] = st
	return st
}
func (s *Store) Register(name string, store storage.StoreActioner) {
	s.registrar.Register(name, store)
}
func (s *Store) Versions() storage.Versions     { return s.versions }
func (s *Store) Diagnostic() storage.Diagnostic { return storeDiag{s} }
func (s *Store) Path() string                   { return s.path }
func (s *Store) CloseBolt() error               { return s.DB.Close() }
func (s *Store) Close() error                   { return s.DB.Close() }

type storeDiag struct{ s *Store }

func (d storeDiag) Error(msg string, err error) {
	d.s.mu.Lock()
	d.s.Errors = append(d.s.Errors, msg+": "+errStr(err))
	d.s.mu.Unlock()
}
func (d storeDiag) Info(msg string, ctx ...keyvalue.T) {}

// ---------------------------------------------------------------- alert service diagnostics

type alertDiag struct{ d *Diag }

func (a alertDiag) WithHandlerContext(ctx ...keyvalue.T) alertservice.HandlerDiagnostic { return a }
func (a alertDiag) MigratingHandlerSpecs()                                              {}
func (a alertDiag) FoundHandlerRows(length int)                                         {}
func (a alertDiag) FoundNewHandler(key string)                                          {}
func (a alertDiag) CreatingNewHandlers(length int)                                      {}
func (a alertDiag) MigratingOldHandlerSpec(id string)                                   {}
func (a alertDiag) Error(msg string, err error, ctx ...keyvalue.T) {
	a.d.mu.Lock()
	a.d.Errors = append(a.d.Errors, ErrRec{Task: "alert-service", Msg: msg, Err: errStr(err)})
	a.d.mu.Unlock()
}
func (a alertDiag) Info(msg string, ctx ...keyvalue.T) {}

// ---------------------------------------------------------------- recording handler

// Ev is an alert event as a handler sees it.
type Ev struct {
	Topic    string
	ID       string
	Level    alert.Level
	Prev     alert.Level
	T        int64 // unix nanoseconds
	Duration int64 // nanoseconds
	Msg      string
	Task     string
}

func (e Ev) String() string {
	return fmt.Sprintf("{%s %s %s<-%s t=%d dur=%d}", e.Topic, e.ID, e.Level, e.Prev, e.T/1e6, e.Duration/1e6)
}

// RecHandler records events; it is a comparable pointer so it can be deregistered.
type RecHandler struct {
	Name   string
	mu     sync.Mutex
	Events []Ev
	// Gate, if non-nil, is received from before each event is recorded (lets a harness stall the handler).
	Gate chan struct{}
	OnEv func(Ev)
}

func (h *RecHandler) Handle(event alert.Event) {
	if h.Gate != nil {
		<-h.Gate
	}
	e := Ev{Topic: event.Topic, ID: event.State.ID, Level: event.State.Level, Prev: event.PreviousState().Level,
		T: event.State.Time.UnixNano(), Duration: int64(event.State.Duration), Msg: event.State.Message, Task: event.Data.TaskName}
	h.mu.Lock()
	h.Events = append(h.Events, e)
	f := h.OnEv
	h.mu.Unlock()
	if f != nil {
		f(e)
	}
}

func (h *RecHandler) Copy() []Ev {
	h.mu.Lock()
	defer h.mu.Unlock()
	return append([]Ev(nil), h.Events...)
}

// ---------------------------------------------------------------- environment with alert service

type AlertEnv struct {
	*Env
	Alert *alertservice.Service
	Store *Store
}

type AlertOpts struct {
	Persist   bool
	BoltPath  string // existing file to open (restart); empty = fresh file
	WrapStore func(ns string, s storage.Interface) storage.Interface
	Commander *FakeCommander
}

var boltSeq int

// NewAlertEnv builds a TaskMaster + real alert service over a real Bolt file.
func NewAlertEnv(name string, o AlertOpts) (*AlertEnv, error) {
	path := o.BoltPath
	if path == "" {
		boltSeq++
		path = filepath.Join(TmpDir(), fmt.Sprintf("bolt-%d-%d.db", os.Getpid(), boltSeq))
		os.Remove(path)
	}
	st, err := OpenStore(path)
	if err != nil {
		return nil, err
	}
	st.Wrap = o.WrapStore
	d := NewDiag()
	as := alertservice.NewService(alertDiag{d}, nil, 0)
	as.PersistTopics = o.Persist
	as.StorageService = st
	as.HTTPDService = httpdFake{}
	if o.Commander != nil {
		as.Commander = o.Commander
	}
	if err := as.Open(); err != nil {
		st.Close()
		return nil, fmt.Errorf("alert service open: %w", err)
	}
	tm := kapacitor.NewTaskMaster(name, serverInfo{}, d)
	tm.HTTPDService = httpdFake{}
	tm.TaskStore = taskStoreFake{}
	tm.DeadmanService = Deadman{}
	tm.DefaultRetentionPolicy = "rp"
	tm.AlertService = as
	if o.Commander != nil {
		tm.Commander = o.Commander
	}
	if err := tm.Open(); err != nil {
		return nil, err
	}
	return &AlertEnv{Env: &Env{TM: tm, Diag: d}, Alert: as, Store: st}, nil
}

// Shutdown closes task master, alert service and the Bolt file; removes the file if rm.
func (e *AlertEnv) Shutdown(rm bool) error {
	err := e.TM.Close()
	if err2 := e.Alert.Close(); err == nil {
		err = err2
	}
	if err2 := e.Store.Close(); err == nil {
		err = err2
	}
	if rm {
		os.Remove(e.Store.path)
	}
	return err
}
