package c13

import (
	"bytes"
	"encoding/json"
	"fmt"
	"reflect"
	"regexp"
	"sort"
	"strings"
	"testing"

	"github.com/influxdata/kapacitor/pipeline"
	ptick "github.com/influxdata/kapacitor/pipeline/tick"
	"github.com/influxdata/kapacitor/tick"
	"github.com/influxdata/kapacitor/tick/ast"
	"github.com/influxdata/kapacitor/zz_verif/kit"
	"github.com/influxdata/kapacitor/zz_verif/rep"
)

// Case: one task script (token list so that comments can be inserted at every token boundary).
type Case struct {
	Batch  bool
	Script string
}

type canon struct {
	json  string
	norm  string // semantic description (reflection over node properties)
	jnorm string // normalised pipeline JSON
	dot   string
}

var env *kit.Env

func build(script string, batch bool) (*pipeline.Pipeline, canon, error) {
	et := pipeline.StreamEdge
	if batch {
		et = pipeline.BatchEdge
	}
	p, err := pipeline.CreatePipeline(script, et, env.TM.CreateTICKScope(), kit.Deadman{}, nil)
	if err != nil {
		return nil, canon{}, err
	}
	b, err := json.Marshal(p)
	if err != nil {
		return nil, canon{}, fmt.Errorf("marshal: %w", err)
	}
	return p, canon{json: string(b), norm: semCanon(p), jnorm: normJSON(b), dot: string(p.Dot("t"))}, nil
}

// normJSON re-encodes pipeline JSON with absent, null and empty lists/maps identified
// (an eval node with no .tags() and one with an empty tag list are the same node).
func normJSON(b []byte) string {
	var v any
	if err := json.Unmarshal(b, &v); err != nil {
		return string(b)
	}
	v = prune(v)
	if g := graphCanon(v); g != "" {
		return g
	}
	o, _ := json.Marshal(v)
	return string(o)
}

// graphCanon renders a pipeline {nodes, edges} independently of the node ids: every node is
// described by its properties and the (ordered) descriptions of its parents; the pipeline is the
// sorted list of node descriptions. Two pipelines with the same graph and node properties but a
// different id assignment (statement order) get the same text.
func graphCanon(v any) string {
	m, ok := v.(map[string]any)
	if !ok {
		return ""
	}
	nodes, _ := m["nodes"].([]any)
	edges, _ := m["edges"].([]any)
	if nodes == nil {
		return ""
	}
	props := map[string]string{}
	parents := map[string][]string{}
	var idsList []string
	for _, n := range nodes {
		nm, ok := n.(map[string]any)
		if !ok {
			return ""
		}
		id := fmt.Sprint(nm["id"])
		delete(nm, "id")
		b, _ := json.Marshal(nm)
		props[id] = string(b)
		idsList = append(idsList, id)
	}
	for _, e := range edges {
		em, ok := e.(map[string]any)
		if !ok {
			return ""
		}
		c, p := fmt.Sprint(em["child"]), fmt.Sprint(em["parent"])
		parents[c] = append(parents[c], p)
	}
	memo := map[string]string{}
	var desc func(id string, depth int) string
	desc = func(id string, depth int) string {
		if d, ok := memo[id]; ok {
			return d
		}
		if depth > 50 {
			return "cycle"
		}
		var ps []string
		for _, p := range parents[id] {
			ps = append(ps, desc(p, depth+1))
		}
		if strings.Contains(props[id], `"typeOf":"union"`) {
			sort.Strings(ps) // the parents of a union are a set
		}
		d := props[id] + "<-[" + strings.Join(ps, ";") + "]"
		memo[id] = d
		return d
	}
	var all []string
	for _, id := range idsList {
		all = append(all, desc(id, 0))
	}
	sort.Strings(all)
	return strings.Join(all, "\n")
}

func prune(v any) any {
	switch x := v.(type) {
	case map[string]any:
		// -<number literal> and the negative number literal a var substitution produces denote the same value
		if x["typeOf"] == "unary" && x["operator"] == "-" {
			if n, ok := x["node"].(map[string]any); ok {
				switch n["typeOf"] {
				case "number":
					c := map[string]any{}
					for k, e := range n {
						c[k] = e
					}
					if f, ok := c["float64"].(float64); ok && f != 0 {
						c["float64"] = -f
					}
					if i, ok := c["int64"].(float64); ok && i != 0 {
						c["int64"] = -i
					}
					return prune(c)
				case "duration":
					c := map[string]any{}
					for k, e := range n {
						c[k] = e
					}
					if d, ok := c["duration"].(string); ok {
						if strings.HasPrefix(d, "-") {
							c["duration"] = d[1:]
						} else {
							c["duration"] = "-" + d
						}
					}
					return prune(c)
				}
			}
		}
		for k, e := range x {
			e = prune(e)
			if e == nil {
				delete(x, k)
			} else {
				x[k] = e
			}
		}
		if len(x) == 0 {
			return nil
		}
		return x
	case []any:
		if len(x) == 0 {
			return nil
		}
		for i := range x {
			x[i] = prune(x[i])
		}
		return x
	}
	return v
}

var reQuoted = regexp.MustCompile(`"[^"]*"|'[^']*'|[0-9]+`)

// sig reduces an error text to a stable signature (quoted parts and numbers removed).
func sig(msg string) string {
	s := reQuoted.ReplaceAllString(msg, "_")
	if len(s) > 90 {
		s = s[:90]
	}
	s = strings.Join(strings.Fields(s), "_")
	return strings.Map(func(r rune) rune {
		if r == '=' || r > 126 {
			return '_'
		}
		return r
	}, s)
}

// diffSig names the place of the first difference of two normalised pipeline JSON texts:
// the typeOf of the enclosing node and the nearest preceding property name.
func diffSig(a, b string) string {
	i := 0
	for i < len(a) && i < len(b) && a[i] == b[i] {
		i++
	}
	pre := a[:i]
	typ := "?"
	if k := strings.LastIndex(pre, `"typeOf":"`); k >= 0 {
		rest := pre[k+10:]
		if e := strings.Index(rest, `"`); e >= 0 {
			typ = rest[:e]
		}
	}
	prop := "?"
	if k := strings.LastIndex(pre, `":`); k >= 0 {
		j := strings.LastIndex(pre[:k], `"`)
		if j >= 0 {
			prop = pre[j+1 : k]
		}
	}
	return typ + "." + prop
}

type problem struct{ kind, msg string }

func safe(stage string, f func() *problem) (p *problem) {
	defer func() {
		if r := recover(); r != nil {
			p = &problem{stage + "-panic:" + sig(fmt.Sprint(r)), fmt.Sprintf("panic in stage %s: %v", stage, r)}
		}
	}()
	return f()
}

func diff(a, b string) string {
	i := 0
	for i < len(a) && i < len(b) && a[i] == b[i] {
		i++
	}
	lo := i - 60
	if lo < 0 {
		lo = 0
	}
	ha, hb := i+80, i+80
	if ha > len(a) {
		ha = len(a)
	}
	if hb > len(b) {
		hb = len(b)
	}
	return fmt.Sprintf("first difference at byte %d: ...%q vs ...%q", i, a[lo:ha], b[lo:hb])
}

// check runs the round-trip stages for one script, each stage independently.
// defines=false if the script does not define a task.
func check(c Case) (probs []*problem, defines bool) {
	var p1 *pipeline.Pipeline
	var c1 canon
	if p := safe("define", func() *problem {
		var err error
		p1, c1, err = build(c.Script, c.Batch)
		if err == nil {
			defines = true
		}
		return nil
	}); p != nil {
		// a panic while defining the task is C05's subject; not a formatting problem
		return nil, false
	}
	if !defines {
		return
	}
	add := func(p *problem) {
		if p != nil {
			probs = append(probs, p)
		}
	}
	// stage 1: Format
	add(safe("format", func() *problem {
		f1, err := tick.Format(c.Script)
		if err != nil {
			return &problem{"format-error:" + sig(err.Error()), fmt.Sprintf("Format failed on a script that defines a task: %v", err)}
		}
		_, c2, err := build(f1, c.Batch)
		if err != nil {
			return &problem{"formatted-rejected:" + sig(err.Error()), fmt.Sprintf("formatted script does not define a task: %v\n--- formatted:\n%s", err, f1)}
		}
		if c2.norm != c1.norm {
			return &problem{"formatted-differs:" + semDiffSig(c1.norm, c2.norm), fmt.Sprintf("formatted script defines a different pipeline: %s\n--- formatted:\n%s", diff(c1.norm, c2.norm), f1)}
		}
		if c2.dot != c1.dot {
			return &problem{"formatted-dot-differs", fmt.Sprintf("formatted script has a different graph: %s", diff(c1.dot, c2.dot))}
		}
		f2, err := tick.Format(f1)
		if err != nil {
			return &problem{"format-unstable", fmt.Sprintf("second Format failed: %v", err)}
		}
		f3, err := tick.Format(f2)
		if err != nil || f3 != f2 {
			return &problem{"format-unstable", fmt.Sprintf("formatting is not stable after one further pass: %v %s", err, diff(f2, f3))}
		}
		if _, c3, err := build(f2, c.Batch); err != nil || c3.norm != c1.norm {
			return &problem{"formatted-twice-differs", fmt.Sprintf("twice formatted script differs: %v", err)}
		}
		return nil
	}))
	// stage 2: pipeline -> TICKscript -> pipeline
	add(safe("render", func() *problem {
		var a ptick.AST
		if err := a.Build(p1); err != nil {
			return &problem{"pipeline-to-tick-error:" + sig(err.Error()), fmt.Sprintf("rendering the pipeline as TICKscript failed: %v", err)}
		}
		var buf bytes.Buffer
		a.Program.Format(&buf, "", false)
		ts := buf.String()
		_, c4, err := build(ts, c.Batch)
		if err != nil {
			return &problem{"rendered-rejected:" + sig(err.Error()), fmt.Sprintf("pipeline rendered as TICKscript does not define a task: %v\n--- rendered:\n%s", err, ts)}
		}
		if c4.norm != c1.norm {
			return &problem{"rendered-differs:" + semDiffSig(c1.norm, c4.norm), fmt.Sprintf("pipeline rendered as TICKscript defines a different pipeline: %s\n--- rendered:\n%s", diff(c1.norm, c4.norm), ts)}
		}
		return nil
	}))
	// stage 3: pipeline JSON -> pipeline -> JSON, stage 4: -> TICKscript -> pipeline
	add(safe("json", func() *problem {
		p5 := &pipeline.Pipeline{}
		if err := p5.Unmarshal([]byte(c1.json)); err != nil {
			return &problem{"json-unmarshal-error:" + sig(err.Error()), fmt.Sprintf("pipeline JSON cannot be read back: %v", err)}
		}
		b5, err := json.Marshal(p5)
		if err != nil {
			return &problem{"json-remarshal-error", err.Error()}
		}
		if s5 := semCanon(p5); s5 != c1.norm {
			return &problem{"json-roundtrip-differs:" + semDiffSig(c1.norm, s5), fmt.Sprintf("pipeline read back from its JSON differs: %s", diff(c1.norm, s5))}
		}
		if normJSON(b5) != c1.jnorm {
			return &problem{"json-rewrite-differs:" + diffSig(c1.jnorm, normJSON(b5)), fmt.Sprintf("pipeline JSON read back and written again differs: %s", diff(c1.jnorm, normJSON(b5)))}
		}
		var a5 ptick.AST
		if err := a5.Build(p5); err != nil {
			return &problem{"json-to-tick-error:" + sig(err.Error()), fmt.Sprintf("rendering the JSON pipeline as TICKscript failed: %v", err)}
		}
		var buf bytes.Buffer
		a5.Program.Format(&buf, "", false)
		ts5 := buf.String()
		_, c6, err := build(ts5, c.Batch)
		if err != nil {
			return &problem{"json-rendered-rejected:" + sig(err.Error()), fmt.Sprintf("JSON pipeline rendered as TICKscript does not define a task: %v\n--- rendered:\n%s", err, ts5)}
		}
		if c6.norm != c1.norm {
			return &problem{"json-rendered-differs:" + semDiffSig(c1.norm, c6.norm), fmt.Sprintf("JSON pipeline rendered as TICKscript defines a different pipeline: %s\n--- rendered:\n%s", diff(c1.norm, c6.norm), ts5)}
		}
		return nil
	}))
	return
}

// checkLambda: lambda text -> AST -> JSON -> AST (Equal) -> Format -> parse -> Equal
func checkLambda(src string) (prob *problem, ok bool) {
	var l *ast.LambdaNode
	prob = safe("lambda-parse", func() *problem {
		var err error
		l, err = ast.ParseLambda(src)
		if err == nil {
			ok = true
		}
		return nil
	})
	if prob != nil || !ok {
		return
	}
	prob = safe("lambda-json", func() *problem {
		b, err := json.Marshal(l)
		if err != nil {
			return &problem{"lambda-json-error", fmt.Sprintf("marshal: %v", err)}
		}
		l2 := &ast.LambdaNode{}
		if err := json.Unmarshal(b, l2); err != nil {
			return &problem{"lambda-json-error", fmt.Sprintf("unmarshal: %v (json %s)", err, b)}
		}
		if !l.Equal(l2) {
			return &problem{"lambda-json-differs", fmt.Sprintf("lambda read back from JSON is not Equal: %s", b)}
		}
		// what the re-read lambda prints must parse to the same tree
		txt := ast.Format(l2.Expression)
		l3, err := ast.ParseLambda(txt)
		if err != nil {
			return &problem{"lambda-json-format-rejected", fmt.Sprintf("lambda read back from JSON formats to %q which does not parse: %v", txt, err)}
		}
		if !sameTree(l.Expression, l3.Expression) {
			return &problem{"lambda-json-format-differs", fmt.Sprintf("lambda %q read back from JSON formats to %q, which is a different expression", src, txt)}
		}
		// plain format of the parsed lambda
		t1 := ast.Format(l.Expression)
		l4, err := ast.ParseLambda(t1)
		if err != nil {
			return &problem{"lambda-format-rejected", fmt.Sprintf("lambda %q formats to %q which does not parse: %v", src, t1, err)}
		}
		if !sameTree(l.Expression, l4.Expression) {
			return &problem{"lambda-format-differs", fmt.Sprintf("lambda %q formats to %q, which is a different expression", src, t1)}
		}
		return nil
	})
	return
}

func classed(kind, src string) string {
	if strings.HasPrefix(kind, "json-roundtrip-differs:ReferenceNode") || strings.HasPrefix(kind, "lambda-json") {
		return kind + classSuffix(src)
	}
	return kind
}

// classSuffix marks inputs of special literal classes so that their failures get their own key.
func classSuffix(src string) string {
	if strings.Contains(src, "9223372036854775807") {
		return ":int64-beyond-2^53"
	}
	return ""
}

// sameTree compares structure through the JSON form (operators, literals, functions, nesting).
func sameTree(a, b ast.Node) bool {
	return dump(reflect.ValueOf(a), 0) == dump(reflect.ValueOf(b), 0)
}

// ---------------------------------------------------------------- generators

var lambdaOps = []string{"AND", "OR", "==", "!=", "<", "<=", ">", ">=", "=~", "!~", "+", "-", "*", "/", "%"}

func operand(op string, right bool, name string) string {
	if right && (op == "=~" || op == "!~") {
		return "/" + name + "/"
	}
	return `"` + name + `"`
}

func lambdas() []string {
	var r []string
	for _, o1 := range lambdaOps {
		for _, o2 := range lambdaOps {
			a, b, c := `"a"`, operand(o1, true, "b"), operand(o2, true, "c")
			r = append(r,
				a+" "+o1+" "+b+" "+o2+" "+c,
				"("+a+" "+o1+" "+b+") "+o2+" "+c,
				a+" "+o1+" ("+`"b"`+" "+o2+" "+c+")",
				"-"+a+" "+o1+" "+b+" "+o2+" "+c,
				"!("+a+" "+o1+" "+b+") "+o2+" "+c,
				a+" "+o1+" -("+`"b"`+" "+o2+" "+c+")",
				"f("+a+" "+o1+" "+b+", "+`"b"`+" "+o2+" "+c+")",
				a+" "+o1+" f("+`"b"`+" "+o2+" "+c+")",
				"(("+a+" "+o1+" "+b+")) "+o2+" ("+c+")",
			)
			for _, o3 := range []string{"AND", "+", "*", "-", "/", "=="} {
				r = append(r, a+" "+o1+" "+b+" "+o2+" "+`"c"`+" "+o3+" "+`"d"`,
					a+" "+o3+" ("+`"b"`+" "+o1+" "+b+") "+o2+" "+`"d"`)
			}
		}
	}
	// literal forms inside lambdas
	for _, lit := range literals() {
		r = append(r, `"a" == `+lit, lit+` == "a"`, `f(`+lit+`)`, `"a" + `+lit+` * 2`)
	}
	r = append(r, `if("a" > 1, 'x', 'y')`, `"a" AND
"b"`, `"a" +
    "b" *
    "c"`, `sigma("v") > 3.0 AND "h" =~ /^a.*\/b$/`, `"fi\"eld" > 1`, `- -"a"`, `!!"a"`, `-1 - -1`, `1.0e3`, `"a" > -1s`)
	return r
}

func literals() []string {
	return []string{`1`, `0`, `007`, `10`, `1.0`, `0.5`, `1.50`, `100000000000`, `1000000.0`, `2500000.5`, `123456789012.0`, `0.00001`, `0.000000123`, `9223372036854775807`, `-1`, `-1.5`, `'s'`, `''`, `'a\'b'`, `'''tri'ple'''`, `'back\\slash'`, "'new\nline'", `'unié'`, `'a"b'`, `'''a\'b'''`,
		`1u`, `1µ`, `1ms`, `1s`, `90s`, `1m`, `1h`, `1d`, `1w`, `-5m`, `1h30m`, `TRUE`, `FALSE`, `/re/`, `/a\/b/`, `/[a-z]+\d/`, `/a b/`}
}

type gen struct {
	batch  bool
	script string
}

func nodeSnippets() []string {
	return []string{
		`|window().period(10s).every(5s)`,
		`|window().period(10s).every(5s).align().fillPeriod()`,
		`|window().periodCount(3).everyCount(2)`,
		`|where(lambda: "a" > 1 AND "b" < 2.0)`,
		`|eval(lambda: "a" + 1).as('x')`,
		`|eval(lambda: "a" * 2, lambda: "b" / 2.0).as('x', 'y').keep('x', 'a').tags('x').quiet()`,
		`|eval(lambda: "a").as('x').keep()`,
		`|groupBy('a', 'b')`,
		`|groupBy(*).exclude('x').byMeasurement()`,
		`|alert().id('{{ .Name }}/{{ index .Tags "h" }}').message('{{ .ID }} is {{ .Level }}').details('<b>{{ .Level }}</b>').info(lambda: "v" > 1).warn(lambda: "v" > 2).crit(lambda: "v" > 3).infoReset(lambda: "v" < 1).warnReset(lambda: "v" < 2).critReset(lambda: "v" < 3)`,
		`|alert().crit(lambda: TRUE).stateChangesOnly(5m).flapping(0.25, 0.5).history(5).levelTag('l').levelField('lf').idTag('it').idField('if').durationField('d').messageField('m').noRecoveries().all()`,
		`|alert().crit(lambda: "v" > 1).topic('t').log('/tmp/x.log').mode(0600).exec('cmd', 'arg1', 'a b').tcp('host:1234').post('http://example.com/a?b=c').header('k', 'v').email('a@b.c', 'd@e.f').category('cat').inhibit('cat2', 'h')`,
		`|alert().crit(lambda: "v" > 1).stateChangesOnly().slack().channel('#c').username('u').iconEmoji(':x:').victorOps().routingKey('r').pagerDuty().hipChat().room('r').token('t').sensu().source('s').handlers('a', 'b').opsGenie().teams('a').recipients('b').talk().telegram().chatId('1').parseMode('Markdown').disableWebPagePreview().disableNotification().pushover().device('d').title('t').sound('s').snmpTrap('1.1.1').data('1.1', 's', 'v').alerta().resource('r').event('e').environment('env').group('g').value('v').origin('o').services('a', 'b')`,
		`|default().field('f', 1.0).field('g', 5).tag('t', 'v')`,
		`|delete().field('f').tag('t')`,
		`|derivative('f').unit(10s).nonNegative().as('d')`,
		`|changeDetect('f')`,
		`|sample(3)`,
		`|sample(10s)`,
		`|shift(5m)`,
		`|shift(-5m)`,
		`|stateDuration(lambda: "v" > 1).as('d').unit(1m)`,
		`|stateCount(lambda: "v" > 1).as('c')`,
		`|flatten().on('a', 'b').delimiter(':').tolerance(1s)`,
		`|combine(lambda: "t" == 'a', lambda: "t" == 'b').as('a', 'b').tolerance(1s).delimiter('.').max(5)`,
		`|count('f')`,
		`|mean('f').as('m').usePointTimes()`,
		`|percentile('f', 95.0)`,
		`|top(2, 'f', 't1', 't2').as('top')`,
		`|bottom(1, 'f')`,
		`|movingAverage('f', 3)`,
		`|elapsed('f', 1s)`,
		`|difference('f')`,
		`|cumulativeSum('f')`,
		`|holtWinters('f', 3, 2, 1m)`,
		`|holtWintersWithFit('f', 3, 2, 1m)`,
		`|median('f')|mode('f')|spread('f')|sum('f')|first('f')|last('f')|min('f')|max('f')|stddev('f')|distinct('f')`,
		`|log().prefix('p').level('DEBUG')`,
		`|httpOut('name')`,
		`|httpPost('http://x/y').header('a', 'b').codeField('code').captureResponse().timeout(5s)`,
		`|httpPost().endpoint('e')`,
		`|influxDBOut().cluster('c').database('d').retentionPolicy('r').measurement('m').precision('s').tag('a', 'b').buffer(10).flushInterval(1s).create().createOptions('x').writeConsistency('all')`,
		`|kapacitorLoopback().database('d').retentionPolicy('rp').measurement('m').tag('a', 'b')`,
		`|barrier().idle(10s).delete(TRUE)`,
		`|barrier().period(5s)`,
		`|deadman(10.0, 1m)`,
		`|deadman(10.0, 1m, lambda: "h" == 'x', lambda: TRUE)`,
		`|stats(1s).align()`,
		`|sideload().source('file:///x').order('a/{{.h}}.yml', 'b.yml').field('f', 1).tag('t', 'v')`,
		`|k8sAutoscale().resourceName('r').replicas(lambda: int("v")).min(1).max(5).increaseCooldown(1m).decreaseCooldown(2m).namespace('ns').kind('deployments').currentField('c').resourceNameTag('rn').kindTag('k').namespaceTag('n').resourceTag('rt')`,
		`|swarmAutoscale().serviceName('s').replicas(lambda: 3)`,
		`|ec2Autoscale().groupName('g').replicas(lambda: 3)`,
		`|window().period(1m).every(1m)|trickle()`,
		`|window().period(1m).every(1m)|mean('f')|eval(lambda: "mean" * 2.0).as('x')`,
	}
}

func taskScripts() []gen {
	var r []gen
	src := `stream|from().measurement('m')`
	for _, s := range nodeSnippets() {
		r = append(r, gen{false, src + s})
		r = append(r, gen{false, src + s + `|log()`})
	}
	// every ordered pair of a representative subset
	sub := []string{`|where(lambda: "a" > 1)`, `|eval(lambda: "a" + 1).as('x')`, `|groupBy('a')`, `|window().period(10s).every(5s)`, `|mean('f')`, `|alert().crit(lambda: "f" > 1)`, `|default().field('f', 1.0)`, `|log()`, `|derivative('f')`, `|sample(2)`}
	for _, a := range sub {
		for _, b := range sub {
			r = append(r, gen{false, src + a + b})
		}
	}
	// from() properties
	for _, f := range []string{`.database('d').retentionPolicy('r')`, `.where(lambda: "h" == 'a' OR "h" == 'b')`, `.groupBy('a', 'b').groupByMeasurement()`, `.round(1s)`, `.truncate(1s)`, `.groupBy(*)`} {
		r = append(r, gen{false, `stream|from().measurement('m')` + f + `|log()`})
	}
	// literal forms in parameter positions
	for _, lit := range literals() {
		r = append(r, gen{false, src + `|default().field('f', ` + lit + `)`})
		r = append(r, gen{false, src + `|default().tag('t', ` + lit + `)`})
		r = append(r, gen{false, src + `|where(lambda: "a" == ` + lit + `)`})
		r = append(r, gen{false, src + `|window().period(` + lit + `).every(` + lit + `)`})
		r = append(r, gen{false, src + `|sample(` + lit + `)`})
		r = append(r, gen{false, src + `|log().prefix(` + lit + `)`})
		if lit != `''` {
			r = append(r, gen{false, src + `|alert().id(` + lit + `).crit(lambda: TRUE)`})
		}
		r = append(r, gen{false, `var x = ` + lit + "\n" + src + `|default().field('f', x)`})
		r = append(r, gen{false, `var x = ` + lit + "\n" + src + `|where(lambda: "a" == x)`})
		r = append(r, gen{false, `var x = ` + lit + "\n" + src + `|log().prefix(x)`})
		r = append(r, gen{false, `var x = ` + lit + "\n" + src + `|window().period(x).every(x)`})
		r = append(r, gen{false, `var x = ` + lit + "\n" + `stream|from().measurement('m').where(lambda: "a" =~ x)|log()`})
	}
	// vars, lists, variables holding nodes, forks, join/union
	r = append(r,
		gen{false, "var m = 'cpu'\nvar p = 10s\nvar w = lambda: \"a\" > 1\nvar lst = ['a', 'b']\nvar data = stream|from().measurement(m).groupBy(lst)\ndata|where(w)|window().period(p).every(p)|log()\ndata|log()"},
		gen{false, "var a = stream|from().measurement('a')\nvar b = stream|from().measurement('b')\na|join(b).as('a', 'b').tolerance(1s).fill(0.0).on('t').streamName('s').delimiter('.')|log()"},
		gen{false, "var a = stream|from().measurement('a')\nvar b = stream|from().measurement('b')\nvar c = stream|from().measurement('c')\na|join(b, c).as('a', 'b', 'c').fill('null')|eval(lambda: \"a.v\" + \"b.v\").as('s')|log()"},
		gen{false, "var a = stream|from().measurement('a')\nvar b = stream|from().measurement('b')\na|union(b).rename('u')|log()"},
		gen{false, "var x = stream|from().measurement('m')|eval(lambda: \"a\" + 1).as('b')\nx|log().prefix('1')\nx|where(lambda: \"b\" > 1)|log().prefix('2')\nx|alert().crit(lambda: \"b\" > 2)"},
		gen{false, "dbrp \"db\".\"rp\"\n\nstream|from().measurement('m')|log()"},
		gen{false, "dbrp \"d b\".\"r\\\"p\"\ndbrp \"x\".\"y\"\nstream|from().measurement('m')|log()"},
		gen{false, "var x = 5\nvar y = x\nstream|from().measurement('m')|sample(y)"},
		gen{false, "var w = lambda: \"a\" > 1\nvar v = lambda: w AND \"b\" < 2\nstream|from().measurement('m')|where(v)"},
		gen{false, "var d = 1h\nstream|from().measurement('m')|shift(d)|window().period(d).every(d)"},
		gen{false, "var n = -5\nvar f = -1.5\nvar dd = -1h\nstream|from().measurement('m')|default().field('a', n).field('b', f)|shift(dd)"},
	)
	// batch
	q := `batch|query('SELECT mean(v) FROM "db"."rp"."m" WHERE "h" = \'a\'')`
	for _, s := range []string{`.period(10s).every(5s)`, `.period(10s).every(5s).groupBy(time(1s), 'a').fill(0).align().offset(1s)`, `.period(1m).cron('*/5 * * * *').groupBy(*).fill('null').alignGroup().cluster('c').groupByMeasurement()`,
		`.period(10s).every(5s)|mean('mean')|alert().crit(lambda: "mean" > 1)`, `.period(10s).every(5s).groupBy('a')|eval(lambda: "mean" * 2.0).as('x')|influxDBOut().database('d').measurement('m')`,
		`.period(10s).every(10s)|log()`, `.period(10s).every(10s)|httpOut('x')`} {
		r = append(r, gen{true, q + s})
	}
	r = append(r, gen{true, "var q = '''SELECT \"v\" FROM \"db\".\"rp\".\"m\" WHERE \"a\" = 'x' '''\nbatch|query(q).period(1m).every(1m)|log()"})
	r = append(r, gen{true, "var a = batch|query('SELECT v FROM \"db\".\"rp\".\"a\"').period(1m).every(1m)\nvar b = batch|query('SELECT v FROM \"db\".\"rp\".\"b\"').period(1m).every(1m)\na|join(b).as('a', 'b')|log()"})
	// lambdas in where
	for _, l := range lambdas() {
		r = append(r, gen{false, src + "|where(lambda: " + l + ")"})
	}
	// escapes at every position of a reference / a string: all names of up to 3 symbols over {a, escaped quote, space, backslash pair}
	for _, n := range escNames([]string{"a", `\"`, " ", `\\`}) {
		r = append(r, gen{false, src + `|where(lambda: "` + n + `" > 1)`})
		r = append(r, gen{false, src + `|eval(lambda: "` + n + `" + 1).as('x')`})
	}
	for _, n := range escNames([]string{"a", `\'`, " ", `"`}) {
		r = append(r, gen{false, src + `|log().prefix('` + n + `')`})
		r = append(r, gen{false, src + `|where(lambda: "a" == '` + n + `')`})
	}
	// nodes with several parents: every choice of receiver and argument order among variables declared in a fixed order
	for _, batch := range []bool{false, true} {
		decl := ""
		for _, v := range []string{"a", "b", "c"} {
			if batch {
				decl += "var " + v + " = batch|query('SELECT v FROM \"db\".\"rp\".\"" + v + "\"').period(1m).every(1m)\n"
			} else {
				decl += "var " + v + " = stream|from().measurement('" + v + "')\n"
			}
		}
		for _, perm := range [][]string{{"a", "b"}, {"b", "a"}, {"c", "a"}, {"a", "b", "c"}, {"a", "c", "b"}, {"b", "a", "c"}, {"b", "c", "a"}, {"c", "a", "b"}, {"c", "b", "a"}} {
			args, names := strings.Join(perm[1:], ", "), "'"+strings.Join(perm, "', '")+"'"
			r = append(r, gen{batch, decl + perm[0] + "|join(" + args + ").as(" + names + ")|log()"})
			r = append(r, gen{batch, decl + perm[0] + "|join(" + args + ").as(" + names + ").fill('null').tolerance(1s)|log()\n" + perm[len(perm)-1] + "|log()"})
			r = append(r, gen{batch, decl + perm[0] + "|union(" + args + ")|log()"})
		}
	}
	return r
}

func escNames(syms []string) []string {
	var r []string
	var rec func(pre string, n int)
	rec = func(pre string, n int) {
		if n > 0 && strings.TrimSpace(pre) != "" {
			r = append(r, pre)
		}
		if n == 3 {
			return
		}
		for _, s := range syms {
			rec(pre+s, n+1)
		}
	}
	rec("", 0)
	return r
}

// tokens splits a generated script at positions where a comment line may be inserted:
// before '|' chain operators, before '.' property calls at depth 0, at line breaks, at start and end.
func commentVariants(s string) []string {
	var pos []int
	depth := 0
	inStr := byte(0)
	for i := 0; i < len(s); i++ {
		ch := s[i]
		if inStr != 0 {
			if ch == '\\' {
				i++
				continue
			}
			if ch == inStr {
				inStr = 0
			}
			continue
		}
		switch ch {
		case '\'', '"':
			inStr = ch
		case '(', '[':
			depth++
			pos = append(pos, i+1)
		case ')', ']':
			pos = append(pos, i)
			depth--
		case '|', '\n':
			pos = append(pos, i)
		case ',':
			pos = append(pos, i+1)
		case '.':
			if depth == 0 && i > 0 && s[i-1] == ')' {
				pos = append(pos, i)
			}
		}
	}
	pos = append(pos, 0, len(s))
	var r []string
	seen := map[int]bool{}
	for _, p := range pos {
		if seen[p] {
			continue
		}
		seen[p] = true
		r = append(r, s[:p]+"\n// c1\n// c2\n"+s[p:])
		r = append(r, s[:p]+" // trailing\n"+s[p:])
	}
	return r
}

func TestCheck(t *testing.T) {
	r := rep.New("C13", "exploration",
		"grammar-generated task scripts: every node kind with representative property sets, every ordered pair of a 10-node subset, every literal form (strings with quotes/backslashes/newlines/triple quotes, durations in every unit, octal/float/negative numbers, regexes with escaped slashes, booleans) in property, lambda and var positions, var declarations of every type, forks, join/union, dbrp statements, batch queries; lambda expressions for every ordered operator pair x both nestings x with/without parentheses x unary/function contexts and operator triples; comment lines inserted at every token boundary of every base script. For each script that defines a task: Format parses and defines the identical pipeline (pipeline JSON incl. lambda trees, and DOT), formatting is stable after one further pass, pipeline->TICKscript->pipeline, pipeline JSON->pipeline->JSON and JSON->pipeline->TICKscript->pipeline are identities; lambda AST->JSON->AST is Equal and formats back to the same tree. non-trivial = distinct scripts that define a task")
	defer r.Write()
	r.Assumption("scripts that do not define a task (parse or pipeline error) are outside the quantifier and only counted")
	r.Assumption("pipeline identity is compared through pipeline JSON (node ids, types, properties, lambda trees) and DOT; comments and source positions are not part of the pipeline")
	var err error
	env, err = kit.NewEnv("c13")
	if err != nil {
		t.Fatal(err)
	}

	if rep.ReplayPath() != "" {
		var c struct {
			Case
			Lambda string
		}
		if err := rep.LoadReplay(&c); err != nil {
			t.Fatal(err)
		}
		if c.Lambda != "" {
			if p, _ := checkLambda(c.Lambda); p != nil {
				r.Violation(classed(p.kind, c.Lambda), p.msg, c)
			}
		} else {
			ps, _ := check(c.Case)
			for _, p := range ps {
				r.Violation(classed(p.kind, c.Script), p.msg+"\n--- script:\n"+c.Script, c)
			}
		}
		r.Add("evaluations", 1)
		return
	}
	n := 0
	base := taskScripts()
	doCase := func(c Case, class string) {
		n++
		if !rep.Mine(n) {
			return
		}
		ps, defines := check(c)
		r.Add("evaluations", 1)
		if !defines {
			r.Add("scripts_not_defining_a_task_"+class, 1)
			return
		}
		r.AddDistinct("nontrivial", 1)
		r.Add("task_scripts_"+class, 1)
		for _, p := range ps {
			r.Violation(classed(p.kind, c.Script), p.msg+"\n--- script:\n"+c.Script, c)
		}
		if r.WantSample() && n%300 == 5 {
			r.Sample(c.Script)
		}
	}
	for _, g := range base {
		doCase(Case{g.batch, g.script}, "base")
	}
	limit := len(base)
	if !rep.Thorough() {
		// quick: comment placement on the structural scripts only (not on the 4000 lambda scripts)
		limit = 0
		for i, g := range base {
			if strings.Contains(g.script, "|where(lambda: \"a\" AND") {
				limit = i
				break
			}
		}
		if limit == 0 {
			limit = len(base)
		}
	}
	for _, g := range base[:limit] {
		if r.Expired() {
			r.Cap("deadline")
			break
		}
		for _, v := range commentVariants(g.script) {
			doCase(Case{g.batch, v}, "commented")
		}
	}
	for _, l := range lambdas() {
		n++
		if !rep.Mine(n) {
			continue
		}
		p, ok := checkLambda(l)
		r.Add("evaluations", 1)
		if !ok {
			r.Add("lambdas_not_parsing", 1)
			continue
		}
		r.AddDistinct("nontrivial", 1)
		r.Add("lambdas", 1)
		if p != nil {
			r.Violation(classed(p.kind, l), p.msg, map[string]any{"Lambda": l})
		}
	}
}
