package kit

import (
	"bytes"
	"io"
	"sync"
	"time"

	"github.com/influxdata/kapacitor/command"
)

// FakeCommander records what alert .exec() handlers would have piped into the program.
type FakeCommander struct {
	mu    sync.Mutex
	Calls []ExecCall
	// Gate, if non-nil, is received from in Start (stalls the handler).
	Gate chan struct{}
	// Delay: every command takes this long (virtual time inside a bubble).
	Delay time.Duration
}

type ExecCall struct {
	Spec  command.Spec
	Stdin []byte
}

func (c *FakeCommander) NewCommand(s command.Spec) command.Command { return &fakeCmd{c: c, s: s} }

func (c *FakeCommander) Copy() []ExecCall {
	c.mu.Lock()
	defer c.mu.Unlock()
	return append([]ExecCall(nil), c.Calls...)
}

type fakeCmd struct {
	c  *FakeCommander
	s  command.Spec
	in io.Reader
}

func (f *fakeCmd) Start() error {
	if f.c.Gate != nil {
		<-f.c.Gate
	}
	if f.c.Delay > 0 {
		time.Sleep(f.c.Delay)
	}
	var b bytes.Buffer
	if f.in != nil {
		io.Copy(&b, f.in)
	}
	f.c.mu.Lock()
	f.c.Calls = append(f.c.Calls, ExecCall{Spec: f.s, Stdin: b.Bytes()})
	f.c.mu.Unlock()
	return nil
}
func (f *fakeCmd) Wait() error                        { return nil }
func (f *fakeCmd) Stdin(r io.Reader)                  { f.in = r }
func (f *fakeCmd) Stdout(io.Writer)                   {}
func (f *fakeCmd) Stderr(io.Writer)                   {}
func (f *fakeCmd) StdinPipe() (io.WriteCloser, error) { return nil, io.ErrClosedPipe }
func (f *fakeCmd) StdoutPipe() (io.Reader, error)     { return nil, io.ErrClosedPipe }
func (f *fakeCmd) StderrPipe() (io.Reader, error)     { return nil, io.ErrClosedPipe }
func (f *fakeCmd) Kill()                              {}
