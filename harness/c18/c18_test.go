package c18

import (
	"bytes"
	"fmt"
	"io"
	"math"
	"sort"
	"strings"
	"testing"
	"time"

	"github.com/influxdata/kapacitor"
	"github.com/influxdata/kapacitor/clock"
	"github.com/influxdata/kapacitor/edge"
	"github.com/influxdata/kapacitor/models"
	"github.com/influxdata/kapacitor/zz_verif/kit"
	"github.com/influxdata/kapacitor/zz_verif/rep"
)

// ---------------------------------------------------------------- cases

type Fld struct {
	K    string
	Kind string // i f b s
	I    int64
	F    float64
	B    bool
	S    string
}

func (f Fld) val() any {
	switch f.Kind {
	case "i":
		return f.I
	case "f":
		return f.F
	case "b":
		return f.B
	}
	return f.S
}

type P struct {
	DB, RP, Name string
	Tags         map[string]string
	Fields       []Fld
	TNs          int64 // unix nanoseconds, 0 = zero time
}

type StreamCase struct {
	Points    []P
	RecTime   bool
	Precision string
	Slow      bool `json:",omitempty"` // the collector takes 1s (virtual) per point: the replay must not report its end before the last one is in
}

type B struct {
	Name   string
	Tags   map[string]string
	ByName bool
	TMaxNs int64
	Points []P // Name/DB/RP unused
}

type BatchCase struct {
	Batches []B
	RecTime bool
	Slow    bool `json:",omitempty"`
}

func fieldsOf(fs []Fld) models.Fields {
	m := models.Fields{}
	for _, f := range fs {
		m[f.K] = f.val()
	}
	return m
}

func tm(ns int64) time.Time {
	if ns == 0 {
		return time.Time{}
	}
	return time.Unix(0, ns).UTC()
}

// ---------------------------------------------------------------- collectors

type streamCol struct {
	pts    []edge.PointMessage
	closed int
	delay  time.Duration
}

func (c *streamCol) CollectPoint(p edge.PointMessage) error {
	if c.delay > 0 {
		time.Sleep(c.delay)
	}
	c.pts = append(c.pts, p)
	return nil
}
func (c *streamCol) Close() error                           { c.closed++; return nil }

type batchCol struct {
	bs     []edge.BufferedBatchMessage
	closed int
	delay  time.Duration
}

func (c *batchCol) CollectBatch(b edge.BufferedBatchMessage) error {
	if c.delay > 0 {
		time.Sleep(c.delay)
	}
	c.bs = append(c.bs, b)
	return nil
}
func (c *batchCol) Close() error { c.closed++; return nil }

type problem struct{ kind, msg string }

func sameVal(a, b any) bool {
	fa, oka := a.(float64)
	fb, okb := b.(float64)
	if oka && okb {
		return fa == fb || (math.IsNaN(fa) && math.IsNaN(fb))
	}
	return a == b
}

func cmpFields(want, got models.Fields) string {
	if len(want) != len(got) {
		return fmt.Sprintf("field sets differ: recorded %v replayed %v", kit.FmtFields(want), kit.FmtFields(got))
	}
	for k, v := range want {
		g, ok := got[k]
		if !ok {
			return fmt.Sprintf("field %q missing in replay (replayed %v)", k, kit.FmtFields(got))
		}
		if fmt.Sprintf("%T", v) != fmt.Sprintf("%T", g) {
			return fmt.Sprintf("field %q recorded as %T(%v) replayed as %T(%v)", k, v, v, g, g)
		}
		if !sameVal(v, g) {
			return fmt.Sprintf("field %q recorded %v replayed %v", k, v, g)
		}
	}
	return ""
}

func cmpTags(want, got models.Tags) string {
	if len(want) != len(got) {
		return fmt.Sprintf("tag sets differ: recorded %v replayed %v", kit.FmtTags(want), kit.FmtTags(got))
	}
	for k, v := range want {
		if g, ok := got[k]; !ok || g != v {
			return fmt.Sprintf("tag %q recorded %q replayed %q (present %v)", k, v, g, ok)
		}
	}
	return ""
}

func runStream(t *testing.T, c StreamCase) (prob *problem) {
	var pts []edge.PointMessage
	for _, p := range c.Points {
		pts = append(pts, edge.NewPointMessage(p.Name, p.DB, p.RP, models.Dimensions{}, fieldsOf(p.Fields), models.Tags(p.Tags), tm(p.TNs)))
	}
	var buf bytes.Buffer
	for _, p := range pts {
		if err := kapacitor.WritePointForRecording(&buf, p, c.Precision); err != nil {
			return &problem{"record-error", err.Error()}
		}
	}
	col := &streamCol{}
	if c.Slow {
		col.delay = time.Second
	}
	var rerr error
	var zero time.Time
	done := false
	atEnd := 0
	leak, pan := kit.Bubble(t, func() {
		clk := clock.Fast()
		zero = clk.Zero()
		errC := kapacitor.ReplayStreamFromIO(clk, io.NopCloser(bytes.NewReader(buf.Bytes())), col, c.RecTime, c.Precision)
		rerr = <-errC
		atEnd = len(col.pts)
		done = true
		kit.Wait()
		time.Sleep(time.Duration(len(pts)+1) * time.Second)
		kit.Wait()
	})
	if pan != nil {
		return &problem{"panic", fmt.Sprintf("replay panicked: %v", pan)}
	}
	if leak != "" {
		return &problem{"goroutine-leak", fmt.Sprintf("replay finished=%v but goroutines remain: %s", done, leak)}
	}
	if rerr != nil {
		return &problem{"replay-error", fmt.Sprintf("replay of a recording failed: %v (recording %q)", rerr, buf.String())}
	}
	if col.closed != 1 {
		return &problem{"not-closed", fmt.Sprintf("collector closed %d times", col.closed)}
	}
	if atEnd < len(col.pts) {
		return &problem{"ended-early", fmt.Sprintf("the replay reported its end when the collector had received %d of %d points", atEnd, len(col.pts))}
	}
	if len(col.pts) != len(pts) {
		return &problem{"count", fmt.Sprintf("recorded %d points, replayed %d (recording %q)", len(pts), len(col.pts), buf.String())}
	}
	var diff time.Duration
	for i, w := range pts {
		g := col.pts[i]
		if g.Database() != w.Database() || g.RetentionPolicy() != w.RetentionPolicy() {
			return &problem{"dbrp", fmt.Sprintf("point %d recorded in %q.%q replayed in %q.%q", i, w.Database(), w.RetentionPolicy(), g.Database(), g.RetentionPolicy())}
		}
		if g.Name() != w.Name() {
			return &problem{"name", fmt.Sprintf("point %d measurement %q replayed as %q", i, w.Name(), g.Name())}
		}
		if m := cmpTags(w.Tags(), g.Tags()); m != "" {
			return &problem{"tags", fmt.Sprintf("point %d: %s", i, m)}
		}
		if m := cmpFields(w.Fields(), g.Fields()); m != "" {
			return &problem{"fields", fmt.Sprintf("point %d: %s", i, m)}
		}
		if g.GroupID() != w.GroupID() {
			return &problem{"group", fmt.Sprintf("point %d group %q replayed as %q", i, w.GroupID(), g.GroupID())}
		}
		if c.RecTime {
			if !g.Time().Equal(w.Time()) {
				return &problem{"time", fmt.Sprintf("point %d recorded at %v replayed (recorded-time mode) at %v", i, w.Time(), g.Time())}
			}
		} else {
			if i == 0 {
				diff = g.Time().Sub(w.Time())
				if !g.Time().Equal(zero) {
					return &problem{"time-origin", fmt.Sprintf("first replayed point at %v, clock zero %v", g.Time(), zero)}
				}
			} else if g.Time().Sub(w.Time()) != diff {
				return &problem{"time-shift", fmt.Sprintf("point %d shifted by %v, point 0 by %v", i, g.Time().Sub(w.Time()), diff)}
			}
		}
	}
	return nil
}

func runBatch(t *testing.T, c BatchCase) (prob *problem) {
	var bs []edge.BufferedBatchMessage
	type rec struct {
		name   string
		tags   models.Tags
		byName bool
		group  models.GroupID
		tmax   time.Time
		pts    []P
	}
	var recs []rec
	for _, b := range c.Batches {
		var ps []edge.BatchPointMessage
		for _, p := range b.Points {
			ps = append(ps, edge.NewBatchPointMessage(fieldsOf(p.Fields), models.Tags(p.Tags), tm(p.TNs)))
		}
		bb := edge.NewBufferedBatchMessage(edge.NewBeginBatchMessage(b.Name, models.Tags(b.Tags), b.ByName, tm(b.TMaxNs), len(ps)), ps, edge.NewEndBatchMessage())
		bs = append(bs, bb)
		recs = append(recs, rec{b.Name, models.Tags(b.Tags), b.ByName, bb.GroupID(), tm(b.TMaxNs), b.Points})
	}
	var buf bytes.Buffer
	for _, b := range bs {
		if err := kapacitor.WriteBatchForRecording(&buf, b); err != nil {
			return &problem{"record-error", err.Error()}
		}
	}
	col := &batchCol{}
	if c.Slow {
		col.delay = time.Second
	}
	var rerr error
	atEnd := 0
	leak, pan := kit.Bubble(t, func() {
		errC := kapacitor.ReplayBatchFromIO(clock.Fast(), []io.ReadCloser{io.NopCloser(bytes.NewReader(buf.Bytes()))}, []kapacitor.BatchCollector{col}, c.RecTime)
		rerr = <-errC
		atEnd = len(col.bs)
		kit.Wait()
		time.Sleep(time.Duration(len(bs)+1) * time.Second)
		kit.Wait()
	})
	if pan != nil {
		return &problem{"batch-panic", fmt.Sprintf("replay panicked: %v", pan)}
	}
	if leak != "" {
		return &problem{"batch-goroutine-leak", leak}
	}
	if rerr != nil {
		return &problem{"batch-replay-error", fmt.Sprintf("replay failed: %v", rerr)}
	}
	if col.closed != 1 {
		return &problem{"batch-not-closed", fmt.Sprintf("collector closed %d times", col.closed)}
	}
	if atEnd < len(col.bs) {
		return &problem{"batch-ended-early", fmt.Sprintf("the replay reported its end when the collector had received %d of %d batches", atEnd, len(col.bs))}
	}
	// empty batches are dropped by the reader: compare non-empty ones
	var want []rec
	for _, r := range recs {
		if len(r.pts) > 0 {
			want = append(want, r)
		}
	}
	if len(col.bs) != len(want) {
		return &problem{"batch-count", fmt.Sprintf("recorded %d non-empty batches, replayed %d", len(want), len(col.bs))}
	}
	var diff time.Duration
	first := true
	for i, w := range want {
		g := col.bs[i]
		if g.Name() != w.name {
			return &problem{"batch-name", fmt.Sprintf("batch %d name %q replayed as %q", i, w.name, g.Name())}
		}
		if m := cmpTags(w.tags, g.Tags()); m != "" {
			return &problem{"batch-tags", fmt.Sprintf("batch %d: %s", i, m)}
		}
		if g.GroupID() != w.group {
			return &problem{"batch-group", fmt.Sprintf("batch %d group %q replayed as %q", i, w.group, g.GroupID())}
		}
		if g.Dimensions().ByName != w.byName {
			return &problem{"batch-byname", fmt.Sprintf("batch %d byName %v replayed as %v", i, w.byName, g.Dimensions().ByName)}
		}
		if len(g.Points()) != len(w.pts) {
			return &problem{"batch-size", fmt.Sprintf("batch %d has %d points, replayed %d", i, len(w.pts), len(g.Points()))}
		}
		for j, wp := range w.pts {
			gp := g.Points()[j]
			if m := cmpFields(fieldsOf(wp.Fields), gp.Fields()); m != "" {
				return &problem{"batch-fields", fmt.Sprintf("batch %d point %d: %s", i, j, m)}
			}
			wt := models.Tags(wp.Tags)
			if len(wt) == 0 {
				wt = w.tags // documented fallback of the recording format: points without tags inherit the batch tags
			}
			if m := cmpTags(wt, gp.Tags()); m != "" {
				return &problem{"batch-point-tags", fmt.Sprintf("batch %d point %d: %s", i, j, m)}
			}
			d := gp.Time().Sub(tm(wp.TNs))
			if c.RecTime {
				if d != 0 {
					return &problem{"batch-time", fmt.Sprintf("batch %d point %d recorded at %v replayed (recorded-time mode) at %v", i, j, tm(wp.TNs), gp.Time())}
				}
			} else if first {
				diff, first = d, false
			} else if d != diff {
				return &problem{"batch-time-shift", fmt.Sprintf("batch %d point %d shifted by %v, first point by %v", i, j, d, diff)}
			}
		}
		dt := g.Time().Sub(w.tmax)
		if c.RecTime && dt != 0 {
			return &problem{"batch-tmax", fmt.Sprintf("batch %d end time %v replayed (recorded-time mode) as %v", i, w.tmax, g.Time())}
		}
		if !c.RecTime && dt != diff {
			return &problem{"batch-tmax-shift", fmt.Sprintf("batch %d end time shifted by %v but its points by %v (recorded tmax %v, last point %v)", i, dt, diff, w.tmax, tm(w.pts[len(w.pts)-1].TNs))}
		}
	}
	return nil
}

// ---------------------------------------------------------------- alphabets

var specials = []string{"a", "a,b", "a b", "a=b", `a"b`, "é", `a\b`, `a\`, "a\nb", "", `a\,b`, `a\ b`, " a", "#a"}

func fieldValues() []Fld {
	var r []Fld
	for _, i := range []int64{0, 1, -1, 1<<53 + 1, math.MaxInt64, math.MinInt64} {
		r = append(r, Fld{Kind: "i", I: i})
	}
	for _, f := range []float64{0, 1.5, -2.5, 100, 1e308, 5e-324, 1e21, 0.1} {
		r = append(r, Fld{Kind: "f", F: f})
	}
	r = append(r, Fld{Kind: "b", B: true}, Fld{Kind: "b", B: false})
	for _, s := range specials {
		r = append(r, Fld{Kind: "s", S: s})
	}
	return r
}

var t0 = time.Date(2000, 1, 1, 0, 0, 0, 0, time.UTC).UnixNano()

func base() P {
	return P{DB: "db", RP: "rp", Name: "m", Tags: map[string]string{"t": "v"}, Fields: []Fld{{K: "f", Kind: "f", F: 1}}, TNs: t0}
}

func streamCases(thorough bool) []StreamCase {
	var r []StreamCase
	add := func(ps ...P) {
		for _, rec := range []bool{true, false} {
			r = append(r, StreamCase{Points: ps, RecTime: rec, Precision: "n"})
		}
	}
	second := base()
	second.TNs = t0 + int64(time.Second)
	// field values x field keys
	for _, fv := range fieldValues() {
		for _, k := range []string{"f", "a b", "a,b", "a=b", "é", `a"b`} {
			p := base()
			v := fv
			v.K = k
			p.Fields = []Fld{v}
			add(p, second)
			p2 := base()
			p2.Fields = []Fld{{K: "x", Kind: "i", I: 7}, v}
			add(p2)
		}
	}
	// names, tag keys, tag values, db, rp (line protocol cannot represent backslashes in keys and treats a
	// leading '#' as a comment: limitations of the InfluxDB line protocol itself, not enumerated for keys)
	for _, s := range specials {
		if s == "" || strings.Contains(s, `\`) || strings.Contains(s, "\n") {
			continue
		}
		p := base()
		p.Name = s
		add(p, second)
		p = base()
		p.Tags = map[string]string{s: "v"}
		add(p, second)
		p = base()
		p.Tags = map[string]string{"t": s, "u": "w"}
		add(p, second)
		if !strings.Contains(s, "\n") {
			p = base()
			p.DB = s
			add(p, second)
			p = base()
			p.RP = s
			add(p, second)
		}
	}
	// no tags, two tags, empty rp
	p := base()
	p.Tags = nil
	add(p, second)
	p = base()
	p.RP = ""
	add(p)
	// time patterns: gaps, equal times, sub-precision
	for _, gaps := range [][]int64{{0}, {1}, {1e9, 1e9}, {0, 0, 5e9}, {3600e9, 1}, {999, 1001},
		// out-of-order arrival: later points older than earlier ones, also older than the first one
		{1e9, -2e9}, {-1e9}, {1e9, -6e9, 8e9, -2500e6, 3500e6}, {-3600e9, 7200e9}} {
		ps := []P{base()}
		t := t0
		for _, g := range gaps {
			t += g
			q := base()
			q.TNs = t
			ps = append(ps, q)
		}
		add(ps...)
	}
	// precisions (timestamps are multiples of the precision)
	for _, pr := range []string{"u", "ms", "s"} {
		mult := map[string]int64{"u": 1e3, "ms": 1e6, "s": 1e9}[pr]
		a, b := base(), base()
		b.TNs = t0 + 3*mult
		for _, rec := range []bool{true, false} {
			r = append(r, StreamCase{Points: []P{a, b}, RecTime: rec, Precision: pr})
		}
	}
	// many points, several dbrps interleaved
	var many []P
	for i := 0; i < 20; i++ {
		q := base()
		q.TNs = t0 + int64(i)*1e9
		q.DB = []string{"db", "db2"}[i%2]
		q.Tags = map[string]string{"g": fmt.Sprint(i % 3)}
		q.Fields = []Fld{{K: "i", Kind: "i", I: int64(i)}}
		many = append(many, q)
	}
	add(many...)
	// long recordings (the reader works through a 4 KiB buffer): 400 and 1500 points over several dbrps,
	// line lengths varying
	for _, n := range []int{400, 1500} {
		var long []P
		for i := 0; i < n; i++ {
			q := base()
			q.TNs = t0 + int64(i)*1e6
			q.DB = fmt.Sprintf("database_%d", i%7)
			q.RP = fmt.Sprintf("rp_%d", i%5)
			q.Name = fmt.Sprintf("m%d", i%11)
			q.Tags = map[string]string{"host": fmt.Sprintf("server%03d", i%13), "pad": strings.Repeat("x", 1+i%17)}
			q.Fields = []Fld{{K: "i", Kind: "i", I: int64(i)}, {K: "s", Kind: "s", S: strings.Repeat("y", i%23)}}
			long = append(long, q)
		}
		add(long...)
	}
	_ = thorough
	return r
}

func batchCases() []BatchCase {
	var r []BatchCase
	add := func(bs ...B) {
		for _, rec := range []bool{true, false} {
			r = append(r, BatchCase{Batches: bs, RecTime: rec})
		}
	}
	mk := func(tags map[string]string, byName bool, tmax int64, pts ...P) B {
		return B{Name: "m", Tags: tags, ByName: byName, TMaxNs: tmax, Points: pts}
	}
	pt := func(ns int64, f Fld, tags map[string]string) P {
		f.K = "f"
		return P{TNs: ns, Fields: []Fld{f}, Tags: tags}
	}
	for _, fv := range fieldValues() {
		add(mk(map[string]string{"g": "a"}, false, t0+10e9, pt(t0+1e9, fv, map[string]string{"g": "a"}), pt(t0+2e9, fv, map[string]string{"g": "a"})))
	}
	for _, s := range specials {
		add(mk(map[string]string{"g": s}, false, t0+10e9, pt(t0+1e9, Fld{Kind: "f", F: 1}, map[string]string{"g": s, "h": "x"})))
		b := mk(map[string]string{"g": "a"}, true, t0+10e9, pt(t0+1e9, Fld{Kind: "f", F: 1}, map[string]string{"g": "a"}))
		b.Name = s
		add(b)
	}
	// no group, by name, several groups, tmax == last point, tmax later than last point, several batches with gaps, empty batch in between
	one := pt(t0+1e9, Fld{Kind: "i", I: 1}, nil)
	two := pt(t0+2e9, Fld{Kind: "i", I: 2}, nil)
	add(mk(nil, false, t0+2e9, one, two))
	add(mk(nil, true, t0+2e9, one, two))
	add(mk(nil, false, t0+10e9, one, two))
	add(mk(map[string]string{"g": "a"}, false, t0+2e9, one, two), mk(map[string]string{"g": "b"}, false, t0+2e9, one, two))
	three := pt(t0+11e9, Fld{Kind: "i", I: 3}, nil)
	add(mk(nil, false, t0+10e9, one, two), mk(nil, false, t0+20e9), mk(nil, false, t0+20e9, three))
	add(mk(nil, false, t0+10e9, one, two), mk(nil, false, t0+20e9, three))
	// points inside a batch carrying tags beyond the group tags, ungrouped batch of tagged points
	add(mk(map[string]string{"g": "a"}, false, t0+10e9, pt(t0+1e9, Fld{Kind: "f", F: 1}, map[string]string{"g": "a", "cpu": "0"}), pt(t0+2e9, Fld{Kind: "f", F: 2}, map[string]string{"g": "a", "cpu": "1"})))
	add(mk(nil, false, t0+10e9, pt(t0+1e9, Fld{Kind: "f", F: 1}, map[string]string{"cpu": "0"}), pt(t0+2e9, Fld{Kind: "f", F: 2}, map[string]string{"cpu": "1"})))
	// many batches (long recording)
	var many []B
	for i := 0; i < 300; i++ {
		many = append(many, mk(map[string]string{"g": fmt.Sprint(i % 5)}, i%2 == 0, t0+int64(i+1)*10e9,
			pt(t0+int64(i)*10e9+1e9, Fld{Kind: "f", F: float64(i)}, map[string]string{"g": fmt.Sprint(i % 5)}),
			pt(t0+int64(i)*10e9+2e9, Fld{Kind: "s", S: strings.Repeat("z", i%31)}, map[string]string{"g": fmt.Sprint(i % 5)})))
	}
	add(many...)
	return r
}

func TestCheck(t *testing.T) {
	r := rep.New("C18", "exploration",
		"recordings: every field value of a typed boundary alphabet (int incl. >2^53 and extremes, floats incl. integral and extreme magnitudes, bools, strings with quotes, commas, spaces, '=', backslashes, newline, unicode, empty) x field keys with special characters; measurement names, tag keys and tag values, db and rp names over the same specials; 0-2 tags; timestamp patterns (equal times, gaps, sub-precision steps), precisions n/u/ms/s, 20 interleaved points over two databases; batches over the same values, group tags with specials, byName, no group, several groups, tmax equal to / later than the last point, empty batches; an enumerated stream family: every sequence of 1-2 points over measurement names {plain, with space, comma, '=', looking like name,tag=value} x tag sets {nil, empty, plain, value with space} x field keys {plain, with space}, both clock modes, fast and slow collector (the replay must not report its end before the last item was collected); an enumerated batch family: every sequence of up to 2 (thorough 3) batches over group tags {none, g=a, g=b} x first point at {1s, 0.5s, 11s} (a later batch may start before the first) x 1-2 points x each point with/without own tags x end time {last point, +10s}; the file-backed store of services/replay: batch recordings of tasks with 1..13 (thorough 120) queries x batches-per-query patterns written through BatchArchiver and replayed through BatchReaders (collector i must receive what was recorded for query i), stream recordings of 0..5000 points through StreamWriter/StreamReader, each also onto a path that still holds an earlier, larger recording. Each case is written with Write{Point,Batch}ForRecording and replayed with Replay{Stream,Batch}FromIO in both clock modes inside a synctest bubble (goroutine-leak oracle); identity of db, rp, name, tags, field names/values/TYPES, group, order, timestamps identical or shifted by one constant. non-trivial = distinct cases containing a special character, a non-float field or more than one item")
	defer r.Write()
	r.Assumption("database / retention policy names containing a newline are not enumerated (the recording format is line based by design)")
	r.Assumption("measurement names, tag keys and tag values containing a backslash or a newline are not enumerated: the InfluxDB line protocol cannot represent them")
	r.Assumption("batch points without tags inherit the batch tags on replay (format convention)")

	if rep.ReplayPath() != "" {
		var c struct {
			Stream *StreamCase
			Batch  *BatchCase
			Store  *StoreCase
		}
		if err := rep.LoadReplay(&c); err != nil {
			t.Fatal(err)
		}
		if c.Stream != nil {
			if p := runStream(t, *c.Stream); p != nil {
				r.Violation(skey(p, *c.Stream), p.msg, c)
			}
		}
		if c.Batch != nil {
			if p := runBatch(t, *c.Batch); p != nil {
				r.Violation(bkey(p, *c.Batch), p.msg, c)
			}
		}
		if c.Store != nil {
			if p := runStore(t, *c.Store); p != nil {
				r.Violation(p.kind, p.msg, c)
			}
		}
		r.Add("evaluations", 1)
		return
	}
	n := 0
	for _, c := range streamCases(rep.Thorough()) {
		n++
		if !rep.Mine(n) {
			continue
		}
		c := c
		r.Add("evaluations", 1)
		r.AddDistinct("nontrivial", 1)
		rep.Current(map[string]any{"Stream": c})
		if p := runStream(t, c); p != nil {
			r.Violation(skey(p, c), p.msg+" | case "+rep.Short(c), map[string]any{"Stream": c})
		}
		if r.WantSample() && n%40 == 3 {
			r.Sample(map[string]any{"stream": c})
		}
	}
	for _, c := range batchCases() {
		n++
		if !rep.Mine(n) {
			continue
		}
		c := c
		r.Add("evaluations", 1)
		r.AddDistinct("nontrivial", 1)
		rep.Current(map[string]any{"Batch": c})
		if p := runBatch(t, c); p != nil {
			r.Violation(bkey(p, c), p.msg+" | case "+rep.Short(c), map[string]any{"Batch": c})
		}
		if r.WantSample() && n%40 == 3 {
			r.Sample(map[string]any{"batch": c})
		}
	}
	streamFamily(func(c StreamCase) {
		n++
		if !rep.Mine(n) || r.Expired() {
			return
		}
		r.Add("evaluations", 1)
		r.Add("stream_family_cases", 1)
		r.AddDistinct("nontrivial", 1)
		rep.Current(map[string]any{"Stream": c})
		if p := runStream(t, c); p != nil {
			r.Violation("family:"+skey(p, c), p.msg+" | case "+rep.Short(c), map[string]any{"Stream": c})
		}
	})
	familyCases(rep.Thorough(), func(c BatchCase) {
		n++
		if !rep.Mine(n) || r.Expired() {
			return
		}
		r.Add("evaluations", 1)
		r.Add("family_cases", 1)
		if len(c.Batches) > 1 {
			r.AddDistinct("nontrivial", 1)
		}
		rep.Current(map[string]any{"Batch": c})
		if p := runBatch(t, c); p != nil {
			r.Violation("family:"+bkey(p, c), p.msg+" | case "+rep.Short(c), map[string]any{"Batch": c})
		}
		if r.WantSample() && n%4000 == 3 {
			r.Sample(map[string]any{"batch": c})
		}
	})
	for _, c := range storeCases(rep.Thorough()) {
		n++
		if !rep.Mine(n) {
			continue
		}
		c := c
		r.Add("evaluations", 1)
		r.Add("store_cases", 1)
		r.AddDistinct("nontrivial", 1)
		rep.Current(map[string]any{"Store": c})
		if p := runStore(t, c); p != nil {
			r.Violation(p.kind, p.msg, map[string]any{"Store": c})
		}
	}
	if r.Expired() {
		r.Cap("deadline")
	}
}

// keys: failure kind + the class of the offending input (which special characters / value kinds are present)
func classOf(ss ...string) string {
	set := map[string]bool{}
	for _, s := range ss {
		for _, ch := range []string{"\n", ",", " ", "=", `"`, `\`, "#"} {
			if strings.Contains(s, ch) {
				set[map[string]string{"\n": "newline", ",": "comma", " ": "space", "=": "equals", `"`: "quote", `\`: "backslash", "#": "hash"}[ch]] = true
			}
		}
		if s == "" {
			set["empty"] = true
		}
	}
	var l []string
	for k := range set {
		l = append(l, k)
	}
	sort.Strings(l)
	return strings.Join(l, "+")
}

func skey(p *problem, c StreamCase) string {
	for _, q := range c.Points {
		for _, f := range q.Fields {
			if f.Kind == "s" && strings.Contains(f.S, "\n") && p.kind == "replay-error" {
				return "stream-replay-error:newline-in-string-field"
			}
		}
	}
	var ss []string
	kinds := map[string]bool{}
	for _, q := range c.Points {
		ss = append(ss, q.Name)
		for k, v := range q.Tags {
			ss = append(ss, k, v)
		}
		for _, f := range q.Fields {
			ss = append(ss, f.K)
			if f.Kind == "s" {
				ss = append(ss, f.S)
			}
			kinds[f.Kind] = true
		}
	}
	return "stream-" + p.kind + ":" + classOf(ss...)
}

func bkey(p *problem, c BatchCase) string {
	if strings.HasPrefix(p.kind, "batch-tmax") || strings.HasPrefix(p.kind, "batch-time") {
		return p.kind
	}
	if p.kind == "batch-fields" && strings.Contains(p.msg, "recorded as int64") {
		return "batch-fields:int-replayed-as-float"
	}
	var ss []string
	kinds := ""
	for _, b := range c.Batches {
		ss = append(ss, b.Name)
		for k, v := range b.Tags {
			ss = append(ss, k, v)
		}
		for _, q := range b.Points {
			for _, f := range q.Fields {
				if f.Kind == "s" {
					ss = append(ss, f.S)
				}
				if !strings.Contains(kinds, f.Kind) {
					kinds += f.Kind
				}
			}
		}
	}
	return p.kind + ":" + kinds + ":" + classOf(ss...)
}
