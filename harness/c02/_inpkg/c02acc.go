package kapacitor

// VerifSetEdgeBufferSize sets the edge buffer size (a variable in the instrumented build).
func VerifSetEdgeBufferSize(n int) { defaultEdgeBufferSize = n }
