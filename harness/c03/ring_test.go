package c03

import (
	"fmt"
	"sort"
	"strings"
	"time"

	"github.com/influxdata/kapacitor"
	"github.com/influxdata/kapacitor/edge"
	"github.com/influxdata/kapacitor/models"
	"github.com/influxdata/kapacitor/zz_verif/kit"
	"github.com/influxdata/kapacitor/zz_verif/rep"
)

// Explicit-state search over the real window ring buffer (windowTimeBuffer).
// A state is the operation history reaching it; successors are built by replaying
// the history on a fresh real buffer plus one operation. Operations:
//   I0  insert a point with the same time as the newest
//   I1  insert a point one second newer
//   Pk  purge(inclusive) so that exactly k oldest *distinct times* are dropped, k=1,2
//   PA  purge everything (oldest beyond the newest point)
//   PN  purge nothing (oldest before everything)
//   Xk  same with inclusive=false
// Reference: a plain slice. Oracle: points() == reference after every operation.
// The canonical key is (start, stop, size, len, cap, rank pattern of all slot
// times incl. stale slots, live?); states with equal keys have equal futures
// because purge/insert only compare slot times with each other and with 'oldest'.

type ringOp struct {
	Kind string // "I0","I1","P1","P2","PA","PN","X1","X2","XA"
}

var ringOps = []string{"I1", "I0", "P1", "P2", "PA", "PN", "X1", "X2", "XA"}

type ringRun struct {
	v    *kapacitor.VerifWinBuf
	ref  []int64 // times (seconds) of live points in arrival order
	refI []int   // ids
	now  int64
	next int
}

func newRingRun() *ringRun { return &ringRun{v: &kapacitor.VerifWinBuf{}, now: 100} }

func (r *ringRun) apply(op string) (err error) {
	defer func() {
		if p := recover(); p != nil {
			err = fmt.Errorf("panic: %v", p)
		}
	}()
	ins := func() {
		p := edge.NewPointMessage("m", "db", "rp", models.Dimensions{}, models.Fields{"i": int64(r.next)}, nil, time.Unix(r.now, 0).UTC())
		r.v.Insert(p)
		r.ref = append(r.ref, r.now)
		r.refI = append(r.refI, r.next)
		r.next++
	}
	purge := func(oldest int64, incl bool) {
		r.v.Purge(time.Unix(oldest, 0).UTC(), incl)
		j := 0
		for j < len(r.ref) {
			keep := r.ref[j] > oldest || (incl && r.ref[j] == oldest)
			if keep {
				break
			}
			j++
		}
		r.ref = r.ref[j:]
		r.refI = r.refI[j:]
	}
	distinct := func() []int64 {
		var d []int64
		for _, t := range r.ref {
			if len(d) == 0 || d[len(d)-1] != t {
				d = append(d, t)
			}
		}
		return d
	}
	switch op {
	case "I0":
		ins()
	case "I1":
		r.now++
		ins()
	case "PA":
		purge(r.now+1, true)
	case "XA":
		purge(r.now, false)
	case "PN":
		purge(0, true)
	case "P1", "P2", "X1", "X2":
		k := int(op[1] - '0')
		d := distinct()
		if len(d) < k+1 {
			// fewer distinct times than requested: purge up to the newest
			if len(d) == 0 {
				purge(r.now, op[0] == 'P')
				return
			}
			k = len(d) - 1
		}
		if op[0] == 'P' {
			purge(d[k], true) // keeps d[k] and newer
		} else {
			purge(d[k]-1+0, false) // keeps times > d[k]-1, i.e. d[k] and newer (integer seconds)
			_ = k
		}
	}
	return nil
}

func (r *ringRun) check() string {
	pts := r.v.Points()
	if len(pts) != len(r.ref) {
		return fmt.Sprintf("buffer holds %d points, reference %d (ref times %v)", len(pts), len(r.ref), r.ref)
	}
	for i, p := range pts {
		id, _ := p.Fields()["i"].(int64)
		if int(id) != r.refI[i] || p.Time().Unix() != r.ref[i] {
			return fmt.Sprintf("buffer point %d is id=%d t=%d, reference id=%d t=%d", i, id, p.Time().Unix(), r.refI[i], r.ref[i])
		}
	}
	return ""
}

func (r *ringRun) key() string {
	st, sp, sz, l, c := r.v.State()
	ts := r.v.SlotTimes()
	// rank pattern of slot times
	u := map[int64]bool{}
	for _, t := range ts {
		u[t.Unix()] = true
	}
	var s []int64
	for k := range u {
		s = append(s, k)
	}
	sort.Slice(s, func(i, j int) bool { return s[i] < s[j] })
	rank := map[int64]int{}
	for i, k := range s {
		rank[k] = i
	}
	var sb strings.Builder
	fmt.Fprintf(&sb, "%d,%d,%d,%d,%d|", st, sp, sz, l, c)
	for _, t := range ts {
		fmt.Fprintf(&sb, "%d.", rank[t.Unix()])
	}
	// whether the newest slot time equals 'now' matters for I0 vs I1 — it always does after an insert;
	// record if now is ahead of the newest slot time (never, by construction) for completeness
	return sb.String()
}

func ringBFS(r *rep.R, maxLive, maxDepth int) {
	type node struct{ hist []string }
	seen := map[string]bool{}
	root := newRingRun()
	seen[root.key()] = true
	frontier := []node{{}}
	depth := 0
	states, transitions := 1, 0
	for len(frontier) > 0 && depth < maxDepth {
		var next []node
		for _, n := range frontier {
			for _, op := range ringOps {
				run := newRingRun()
				for _, h := range n.hist {
					run.apply(h)
				}
				if len(run.ref) >= maxLive && op[0] == 'I' {
					continue
				}
				err := run.apply(op)
				transitions++
				hist := append(append([]string{}, n.hist...), op)
				if err != nil {
					r.Violation("ring-panic", fmt.Sprintf("ring buffer panicked: %v after %v", err, hist), map[string]any{"ring": hist})
					continue
				}
				if msg := run.check(); msg != "" {
					r.Violation("ring-content", fmt.Sprintf("%s after ops %v", msg, hist), map[string]any{"ring": hist})
					continue
				}
				k := run.key()
				if !seen[k] {
					seen[k] = true
					states++
					next = append(next, node{hist})
					if states%50 == 1 {
						r.Sample(map[string]any{"ring_ops": hist, "state": k})
					}
				}
			}
		}
		frontier = next
		depth++
	}
	r.Add("ring_states", int64(states))
	r.Add("ring_transitions", int64(transitions))
	r.Add("transitions", int64(transitions))
	r.Add("states", int64(states))
	r.SetMax("ring_depth", int64(depth))
	if len(frontier) > 0 {
		r.Note("ring_bfs_closed", false)
		r.Cap(fmt.Sprintf("ring BFS stopped at depth %d with %d frontier states (live points <= %d)", depth, len(frontier), maxLive))
	} else {
		r.Note("ring_bfs_closed", true)
	}
	_ = kit.T0
}

func ringReplay(r *rep.R, hist []string) {
	run := newRingRun()
	for i, op := range hist {
		if err := run.apply(op); err != nil {
			r.Violation("ring-panic", fmt.Sprintf("ring buffer panicked: %v after %v", err, hist[:i+1]), map[string]any{"ring": hist})
			return
		}
		if msg := run.check(); msg != "" {
			r.Violation("ring-content", fmt.Sprintf("%s after ops %v", msg, hist[:i+1]), map[string]any{"ring": hist})
			return
		}
	}
}
