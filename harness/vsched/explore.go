package vsched

import (
	"fmt"
	"os"
	"strings"
	"testing"
	"testing/synctest"
	"time"
)

// Exec is one complete controlled execution.
type Exec struct {
	S       *Sched
	Leak    string // goroutines left blocked when the bubble ended
	Outcome string // harness-defined summary (for distinct-outcome counting)
	Problem string // oracle failure ("" = ok)
	Key     string // kind of the failure
}

// Harness builds one fresh instance of the system; Body runs as the first controlled goroutine,
// Check runs in the bubble after the schedule ended (scheduler no longer active).
type Harness struct {
	Cfg   Sched
	Setup func() (body func(), check func(x *Exec))
}

type Stats struct {
	Executions  int
	Diverged    int
	Deadlocks   int
	Panics      int
	Horizons    int
	MaxChoices  int
	Outcomes    map[string]int
	Capped      bool
	BoundDone   int
	Transitions int
	Slow        int
}

type Found struct {
	Key     string
	Problem string
	Picks   []int
	Trace   []string
}

// RunOne executes the harness once with the given choice prefix.
func RunOne(t *testing.T, h Harness, prefix []int) (x *Exec) {
	x = &Exec{}
	defer func() {
		if r := recover(); r != nil {
			msg := fmt.Sprint(r)
			if strings.Contains(msg, "deadlock: main bubble goroutine has exited") {
				x.Leak = msg
				return
			}
			if strings.Contains(msg, "deadlock: all goroutines in bubble are blocked") {
				if x.S != nil && x.S.Verdict == "" {
					x.S.Verdict = "deadlock"
					x.S.Detail = msg
				}
				return
			}
			panic(r)
		}
	}()
	synctest.Test(t, func(t *testing.T) {
		body, check := h.Setup()
		x.S = Run(prefix, h.Cfg, body)
		if check != nil {
			check(x)
		}
	})
	return x
}

// Explore: iterative deviation bounding (0..bound) of the harness, depth-first, stateless.
// shard/nshards partition the depth-2 subtrees. deadline: stop (Capped) when exceeded.
func Explore(t *testing.T, h Harness, bound int, shard, nshards int, deadline time.Time, maxExec int, onFound func(Found)) Stats {
	st := Stats{Outcomes: map[string]int{}}
	seenProblem := map[string]bool{}
	counter := 0
	var explore func(prefix []int, labels []string, depth int)
	run := func(prefix []int, labels []string) *Exec {
		t0 := time.Now()
		x := RunOne(t, h, prefix)
		if d := time.Since(t0); d > 2*time.Second && x.S != nil {
			st.Slow++
			fmt.Fprintf(os.Stderr, "vsched: slow execution %v: verdict=%q steps=%d choices=%d\n", d, x.S.Verdict, x.S.Steps(), len(x.S.Trace))
		}
		st.Executions++
		if x.S == nil {
			return x
		}
		st.Transitions += len(x.S.Trace)
		if len(x.S.Trace) > st.MaxChoices {
			st.MaxChoices = len(x.S.Trace)
		}
		// replay divergence: the replayed prefix must meet the same labelled alternatives
		for i := range labels {
			if i >= len(x.S.Trace) || x.S.Trace[i].Chosen != labels[i] {
				x.S.Diverged = true
				break
			}
		}
		return x
	}
	explore = func(prefix []int, labels []string, depth int) {
		if st.Capped {
			return
		}
		if (!deadline.IsZero() && time.Now().After(deadline)) || (maxExec > 0 && st.Executions >= maxExec) {
			st.Capped = true
			return
		}
		x := run(prefix, labels)
		if x.S == nil {
			return
		}
		if x.S.Diverged {
			st.Diverged++
			return
		}
		switch {
		case x.S.Verdict == "deadlock":
			st.Deadlocks++
		case x.S.Verdict == "panic":
			st.Panics++
		case x.S.Verdict == "horizon":
			st.Horizons++
		}
		st.Outcomes[x.Outcome]++
		if x.Problem != "" && !seenProblem[x.Key] {
			seenProblem[x.Key] = true
			f := Found{Key: x.Key, Problem: x.Problem}
			for _, c := range x.S.Trace {
				f.Picks = append(f.Picks, c.Pick)
				f.Trace = append(f.Trace, c.Kind+":"+c.Chosen)
			}
			onFound(f)
		}
		tr := x.S.Trace
		cost := 0
		for i := 0; i < len(tr); i++ {
			if i >= len(prefix) && !tr[i].NoBranch {
				for alt := 1; alt < tr[i].N; alt++ {
					if cost+tr[i].Cost[alt] > bound {
						continue
					}
					if depth == 1 {
						// depth-2 subtrees are partitioned over the shards
						counter++
						if counter%nshards != shard {
							continue
						}
					}
					np := make([]int, i+1)
					nl := make([]string, i+1)
					for k := 0; k < i; k++ {
						np[k] = tr[k].Pick
						nl[k] = tr[k].Chosen
					}
					np[i] = alt
					nl[i] = tr[i].Labels[alt]
					explore(np, nl, depth+1)
				}
			}
			cost += tr[i].Cost[tr[i].Pick]
		}
	}
	explore(nil, nil, 0)
	st.BoundDone = bound
	return st
}

// FreeRun executes the harness body n times WITHOUT the controlled scheduler (the Go scheduler decides), each
// time in a fresh bubble. It exists for the separate free-running race-detector pass: under the controlled
// scheduler every hand-off is a happens-before edge, which blinds the detector; here only the synchronisation of
// the code under test orders its accesses. Oracle results of these runs are ignored (they are samples, not
// enumerated, and not replayable); only what the race detector prints counts. Returns the runs completed.
func FreeRun(t *testing.T, h Harness, n int) int {
	done := 0
	for i := 0; i < n; i++ {
		// in a goroutine of its own: when the detector reports a race inside the bubble, synctest.Test ends the
		// calling goroutine (runtime.Goexit), which must not be the test's
		fin := make(chan struct{})
		go func() {
			defer close(fin)
			defer func() { recover() }() // leftover goroutines / deadlocks of a sampled schedule are not judged here
			synctest.Test(t, func(t *testing.T) {
				body, _ := h.Setup()
				body()
				synctest.Wait()
			})
		}()
		<-fin
		done++
	}
	return done
}

// FreeRuns: number of free-running executions per scenario asked for by the driver's race pass (0 = not a race pass).
func FreeRuns() int {
	n := 0
	fmt.Sscan(os.Getenv("VERIF_FREERUN"), &n)
	return n
}
