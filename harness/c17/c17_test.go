package c17

import (
	"context"
	"errors"
	"fmt"
	"os"
	"sort"
	"strings"
	"sync"
	"testing"
	"testing/synctest"
	"time"

	"github.com/influxdata/kapacitor/task/backend/scheduler"
	"github.com/influxdata/kapacitor/zz_verif/rep"
	"github.com/influxdata/kapacitor/zz_verif/vsched"
)

type sched struct {
	id     scheduler.ID
	s      scheduler.Schedule
	offset time.Duration
	last   time.Time
}

func (s sched) ID() scheduler.ID             { return s.id }
func (s sched) Schedule() scheduler.Schedule { return s.s }
func (s sched) Offset() time.Duration        { return s.offset }
func (s sched) LastScheduled() time.Time     { return s.last }

type execRec struct {
	ID           scheduler.ID
	ScheduledFor int64 // unix seconds
	RunAt        int64
	Start, End   time.Time
}

type recorder struct {
	mu         sync.Mutex
	execs      []execRec
	running    map[scheduler.ID]int
	overlap    string
	checkpoint map[scheduler.ID][]int64
	failAt     map[string]bool // "id:scheduledFor" -> return an error
	panicAt    map[string]bool
	slowAt     map[string]time.Duration
}

// (mu only matters in the free-running race pass: under the controlled scheduler one goroutine runs at a time.
// It is never held across a scheduling point.)
func (r *recorder) Execute(ctx context.Context, id scheduler.ID, scheduledFor time.Time, runAt time.Time) error {
	r.mu.Lock()
	r.running[id]++
	if r.running[id] > 1 {
		r.overlap = fmt.Sprintf("two concurrent executions of task %d (scheduledFor %v)", id, scheduledFor.Unix())
	}
	r.mu.Unlock()
	rec := execRec{ID: id, ScheduledFor: scheduledFor.Unix(), RunAt: runAt.Unix(), Start: time.Now()}
	vsched.Point() // executor latency: a scheduling point
	k := fmt.Sprintf("%d:%d", id, scheduledFor.Unix())
	r.mu.Lock()
	d, slow := r.slowAt[k]
	r.mu.Unlock()
	if slow {
		time.Sleep(d)
		vsched.Point()
	}
	rec.End = time.Now()
	r.mu.Lock()
	r.execs = append(r.execs, rec)
	r.running[id]--
	pan, fail := r.panicAt[k], r.failAt[k]
	r.mu.Unlock()
	if pan {
		panic("executor panic")
	}
	if fail {
		return errors.New("executor failure")
	}
	return nil
}

func (r *recorder) UpdateLastScheduled(ctx context.Context, id scheduler.ID, t time.Time) error {
	r.mu.Lock()
	r.checkpoint[id] = append(r.checkpoint[id], t.Unix())
	r.mu.Unlock()
	return nil
}

// Scenario: which control operations the actor goroutines perform.
type Scenario struct {
	Name      string
	Workers   int
	Fail      bool // executor returns an error for one occurrence of task 1
	Panic     bool
	ReschedMs int  // when actor A re-schedules task 1 (ms after start)
	ReleaseMs int  // when actor B releases task 2
	TimeJumps bool // (unused: letting time pass while goroutines are enabled hangs the Go 1.25.7 runtime inside bubbles, see DESIGN.md)
	SlowMs    int  // the execution of task 1's occurrence t0+2s takes this long (virtual time): later occurrences pile up
	Skip1     bool // actor A does nothing (task 1 is never scheduled)
	Late3Ms   int  // if >0 actor B schedules a new task 3 '@every 1s' this long after start (after the release of task 2)
	OneShot   bool // actor A schedules task 4 with a cron schedule that has exactly one occurrence (t0+2s) instead of task 1
	// task 2: '@every <Every2S>s' with offset Offset2S (defaults 2 and 1; the offset may be negative or exceed the period)
	Every2S, Offset2S int
	// FromCheckpoint: at ReleaseMs actor B does not release task 2 but schedules it again with the last-scheduled time
	// the checkpointer was last told (what the coordinator does when a task is updated or the process restarts)
	FromCheckpoint bool
}

func (sc Scenario) every2() int64 {
	if sc.Every2S != 0 {
		return int64(sc.Every2S)
	}
	return 2
}

func (sc Scenario) offset2() int64 {
	if sc.Every2S != 0 {
		return int64(sc.Offset2S)
	}
	return 1
}

func scenarios() []Scenario {
	return []Scenario{
		{Name: "two-tasks-release", Workers: 1, ReschedMs: 2500, ReleaseMs: 3500},
		{Name: "two-tasks-release-2workers", Workers: 2, ReschedMs: 2500, ReleaseMs: 3500},
		{Name: "ops-on-tick", Workers: 1, ReschedMs: 3000, ReleaseMs: 4000},
		{Name: "ops-on-tick-2workers", Workers: 2, ReschedMs: 3000, ReleaseMs: 4000},
		{Name: "executor-error", Workers: 1, Fail: true, ReschedMs: 3000, ReleaseMs: 3500},
		{Name: "executor-panic", Workers: 1, Panic: true, ReschedMs: 2500, ReleaseMs: 4000},
		{Name: "slow-executor", Workers: 1, ReschedMs: 3000, ReleaseMs: 4000, SlowMs: 2500},
		{Name: "slow-executor-2workers", Workers: 2, ReschedMs: 2500, ReleaseMs: 4000, SlowMs: 2500},
		{Name: "queue-runs-empty-then-schedule", Workers: 1, Skip1: true, ReleaseMs: 1500, Late3Ms: 4500},
		{Name: "queue-runs-empty-then-schedule-2workers", Workers: 2, Skip1: true, ReleaseMs: 2500, Late3Ms: 4000},
		// a schedule with a last occurrence, due in a round in which nothing else is due (task 2 released before)
		{Name: "one-shot-cron-alone", Workers: 1, OneShot: true, ReleaseMs: 1500},
		{Name: "one-shot-cron-next-to-periodic", Workers: 2, OneShot: true, ReleaseMs: 4500},
		// re-scheduling from the stored checkpoint with an offset beyond the period / a negative offset
		{Name: "reschedule-from-checkpoint-offset-beyond-period", Workers: 1, Skip1: true, Every2S: 1, Offset2S: 2, ReleaseMs: 3500, FromCheckpoint: true},
		{Name: "reschedule-from-checkpoint-negative-offset", Workers: 1, Skip1: true, Every2S: 2, Offset2S: -1, ReleaseMs: 3500, FromCheckpoint: true},
		{Name: "reschedule-from-checkpoint", Workers: 2, ReschedMs: 2500, ReleaseMs: 4500, FromCheckpoint: true},
	}
}

type observed struct {
	rec          *recorder
	t0           time.Time
	releaseAt    time.Time // clock time at which Release(t2) returned
	released     bool
	reschedAt    time.Time
	reschedLast  time.Time
	opsReturned  int
	opsWanted    int
	slowOp       string // first Schedule/Release call during which virtual time passed
	late3Last    time.Time
	stopReturned bool
	errs         []string
}

func harness(sc Scenario) vsched.Harness {
	return vsched.Harness{
		Cfg: vsched.Sched{MaxSteps: 6000, Horizon: 30 * time.Second, AllowTimeChoice: false},
		Setup: func() (func(), func(*vsched.Exec)) {
			o := &observed{}
			body := func() {
				o.t0 = time.Now().UTC()
				o.rec = &recorder{running: map[scheduler.ID]int{}, checkpoint: map[scheduler.ID][]int64{}, failAt: map[string]bool{}, panicAt: map[string]bool{}, slowAt: map[string]time.Duration{}}
				if sc.SlowMs > 0 {
					o.rec.slowAt[fmt.Sprintf("1:%d", o.t0.Unix()+2)] = time.Duration(sc.SlowMs) * time.Millisecond
				}
				if sc.Fail {
					o.rec.failAt[fmt.Sprintf("1:%d", o.t0.Unix()+2)] = true
				}
				if sc.Panic {
					o.rec.panicAt[fmt.Sprintf("1:%d", o.t0.Unix()+2)] = true
				}
				vsched.NoBranch(true)
				s, _, err := scheduler.NewScheduler(o.rec, o.rec, scheduler.WithMaxConcurrentWorkers(sc.Workers),
					scheduler.WithOnErrorFn(func(_ context.Context, id scheduler.ID, at time.Time, err error) {
						o.errs = append(o.errs, fmt.Sprintf("%d@%d:%v", id, at.Unix(), err))
					}))
				if err != nil {
					o.errs = append(o.errs, "new: "+err.Error())
					return
				}
				vsched.Idle()
				vsched.NoBranch(false)
				s1, _, _ := scheduler.NewSchedule("@every 1s", o.t0)
				s2, _, _ := scheduler.NewSchedule(fmt.Sprintf("@every %ds", sc.every2()), o.t0)
				s4, _, err4 := scheduler.NewSchedule("2 0 0 1 1 * 2000", o.t0) // sec min hour dom month dow year: 2000-01-01 00:00:02 only
				if err4 != nil {
					o.errs = append(o.errs, "one-shot schedule: "+err4.Error())
				}
				done := make(chan struct{}, 2)
				call := func(name string, f func() error) {
					began := time.Now()
					if err := f(); err != nil {
						o.errs = append(o.errs, name+": "+err.Error())
					}
					if d := time.Since(began); d > 0 && o.slowOp == "" {
						o.slowOp = fmt.Sprintf("%s called at t0+%v returned %v later", name, began.Sub(o.t0), d)
					}
					o.opsReturned++
				}
				o.opsWanted = 4
				if sc.Skip1 {
					o.opsWanted -= 2
				}
				if sc.OneShot {
					o.opsWanted--
				}
				if sc.Late3Ms > 0 {
					o.opsWanted++
				}
				vsched.Go(func() { // actor A: schedule task 1, later re-schedule it (same schedule, new last-scheduled)
					if sc.Skip1 {
						done <- struct{}{}
						return
					}
					if sc.OneShot {
						call("schedule4", func() error { return s.Schedule(sched{id: 4, s: s4, last: o.t0}) })
						done <- struct{}{}
						return
					}
					call("schedule1", func() error { return s.Schedule(sched{id: 1, s: s1, last: o.t0}) })
					time.Sleep(time.Duration(sc.ReschedMs) * time.Millisecond)
					vsched.Point()
					// re-schedule "as of now": the last-scheduled time is the current clock second, so the
					// occurrences after the call are exactly those later than now
					last := time.Now().UTC().Truncate(time.Second)
					o.reschedLast = last
					call("reschedule1", func() error { return s.Schedule(sched{id: 1, s: s1, last: last}) })
					o.reschedAt = time.Now()
					vsched.Point()
					done <- struct{}{}
				})
				vsched.Go(func() { // actor B: schedule task 2 with offset, release it later
					off2 := time.Duration(sc.offset2()) * time.Second
					call("schedule2", func() error { return s.Schedule(sched{id: 2, s: s2, offset: off2, last: o.t0}) })
					time.Sleep(time.Duration(sc.ReleaseMs) * time.Millisecond)
					vsched.Point()
					if sc.FromCheckpoint {
						last := o.t0
						o.rec.mu.Lock()
						if cps := o.rec.checkpoint[2]; len(cps) > 0 {
							last = time.Unix(cps[len(cps)-1], 0).UTC()
						}
						o.rec.mu.Unlock()
						call("reschedule2-from-checkpoint", func() error { return s.Schedule(sched{id: 2, s: s2, offset: off2, last: last}) })
					} else {
						call("release2", func() error { return s.Release(2) })
						o.releaseAt = time.Now()
						o.released = true
					}
					vsched.Point()
					if sc.Late3Ms > 0 {
						time.Sleep(time.Duration(sc.Late3Ms-sc.ReleaseMs) * time.Millisecond)
						vsched.Point()
						o.late3Last = time.Now().UTC().Truncate(time.Second)
						call("schedule3", func() error { return s.Schedule(sched{id: 3, s: s1, last: o.late3Last}) })
						vsched.Point()
					}
					done <- struct{}{}
				})
				for i := 0; i < 2; i++ {
					vsched.Point()
					<-done
				}
				time.Sleep(2 * time.Second)
				vsched.Point()
				vsched.NoBranch(true)
				s.Stop()
				o.stopReturned = true
			}
			check := func(x *vsched.Exec) {
				synctest.Wait()
				if x.S.Verdict != "" {
					x.Key, x.Problem = "sched-"+x.S.Verdict, fmt.Sprintf("%s: schedule ended with %s (operations returned: %d, stop returned: %v)\n%s", sc.Name, x.S.Verdict, o.opsReturned, o.stopReturned, trim(x.S.Detail, 2500))
					return
				}
				if o.opsReturned != o.opsWanted || !o.stopReturned {
					x.Key, x.Problem = "call-not-returned", fmt.Sprintf("%s: %d of %d Schedule/Release calls returned, Stop returned %v", sc.Name, o.opsReturned, o.opsWanted, o.stopReturned)
					return
				}
				if o.slowOp != "" {
					// nothing inside Schedule/Release may wait for the clock or for an executor: in virtual time a
					// prompt call takes exactly 0
					x.Key, x.Problem = "call-not-prompt", fmt.Sprintf("%s: %s (it waited for the clock or for a running executor)", sc.Name, o.slowOp)
					return
				}
				if o.rec.overlap != "" {
					x.Key, x.Problem = "concurrent-execution", sc.Name+": "+o.rec.overlap
					return
				}
				per := map[scheduler.ID][]execRec{}
				for _, e := range o.rec.execs {
					per[e.ID] = append(per[e.ID], e)
				}
				var summary []string
				for _, id := range []scheduler.ID{1, 2, 3} {
					every, offset, base := int64(1), int64(0), o.t0.Unix()
					if id == 2 {
						every, offset = sc.every2(), sc.offset2()
					}
					if id == 3 {
						base = o.late3Last.Unix()
					}
					es := per[id]
					var occ []string
					for i, e := range es {
						occ = append(occ, fmt.Sprint(e.ScheduledFor-o.t0.Unix()))
						rel := e.ScheduledFor - o.t0.Unix()
						if rel <= 0 || rel%every != 0 {
							x.Key, x.Problem = "not-an-occurrence", fmt.Sprintf("%s: task %d executed for t0+%ds which is not an occurrence of its schedule after the last-scheduled time", sc.Name, id, rel)
							return
						}
						if i > 0 {
							prev := es[i-1].ScheduledFor
							switch {
							case e.ScheduledFor == prev:
								x.Key, x.Problem = "occurrence-twice", fmt.Sprintf("%s: task %d executed twice for occurrence t0+%ds (%v)", sc.Name, id, rel, occs(es, o.t0))
								return
							case e.ScheduledFor < prev:
								x.Key, x.Problem = "out-of-order", fmt.Sprintf("%s: task %d occurrences executed out of order: %v", sc.Name, id, occs(es, o.t0))
								return
							case e.ScheduledFor != prev+every && !(id == 1 && prev+every == o.reschedLast.Unix() && e.ScheduledFor == prev+2*every):
								// (the occurrence equal to the new last-scheduled time of a re-schedule may legitimately not run)
								x.Key, x.Problem = "occurrence-skipped", fmt.Sprintf("%s: task %d skipped an occurrence: executed %v (every %ds)", sc.Name, id, occs(es, o.t0), every)
								return
							}
						} else if e.ScheduledFor != base+every {
							x.Key, x.Problem = "first-occurrence", fmt.Sprintf("%s: task %d first executed occurrence is t0+%ds, want t0+%ds", sc.Name, id, rel, base+every-o.t0.Unix())
							return
						}
						if e.Start.Before(time.Unix(e.ScheduledFor+offset, 0)) {
							x.Key, x.Problem = "too-early", fmt.Sprintf("%s: task %d occurrence t0+%ds (+offset %ds) executed at clock t0+%v", sc.Name, id, rel, offset, e.Start.Sub(o.t0))
							return
						}
						if id == 2 && o.released && time.Unix(e.ScheduledFor+offset, 0).After(o.releaseAt) {
							x.Key, x.Problem = "executed-after-release", fmt.Sprintf("%s: task 2 occurrence t0+%ds is due after Release returned (t0+%v) but was executed", sc.Name, rel, o.releaseAt.Sub(o.t0))
							return
						}
					}
					cps := o.rec.checkpoint[id]
					if !sort.SliceIsSorted(cps, func(i, j int) bool { return cps[i] < cps[j] }) {
						x.Key, x.Problem = "checkpoint-backwards", fmt.Sprintf("%s: task %d last-scheduled checkpoints %v", sc.Name, id, cps)
						return
					}
					summary = append(summary, fmt.Sprintf("%d:[%s]", id, strings.Join(occ, ",")))
				}
				// the schedule with one occurrence: executed for it once, not before it is due, and never again
				if sc.OneShot {
					es := per[4]
					switch {
					case len(es) == 0:
						x.Key, x.Problem = "occurrences-missing", fmt.Sprintf("%s: task 4 (cron with the single occurrence t0+2s) was never executed", sc.Name)
						return
					case len(es) > 1:
						x.Key, x.Problem = "occurrence-twice", fmt.Sprintf("%s: task 4 (cron with the single occurrence t0+2s) executed %d times: %v", sc.Name, len(es), occs(es, o.t0))
						return
					case es[0].ScheduledFor != o.t0.Unix()+2:
						x.Key, x.Problem = "not-an-occurrence", fmt.Sprintf("%s: task 4 executed for t0+%ds, its only occurrence is t0+2s", sc.Name, es[0].ScheduledFor-o.t0.Unix())
						return
					case es[0].Start.Before(time.Unix(es[0].ScheduledFor, 0)):
						x.Key, x.Problem = "too-early", fmt.Sprintf("%s: task 4 executed at clock t0+%v", sc.Name, es[0].Start.Sub(o.t0))
						return
					}
					summary = append(summary, "4:[2]")
				}
				if sc.FromCheckpoint && len(per[2]) < 2 {
					x.Key, x.Problem = "occurrences-missing", fmt.Sprintf("%s: task 2 executed only %v", sc.Name, occs(per[2], o.t0))
					return
				}
				// liveness within the horizon: task 1 ran for every second that elapsed completely before Stop
				// (the stop happens at >= t0+5.5s of virtual time), unless the executor failed/panicked
				if !sc.Fail && !sc.Panic && !sc.Skip1 && !sc.OneShot && sc.SlowMs == 0 && len(per[1]) < 4 {
					x.Key, x.Problem = "occurrences-missing", fmt.Sprintf("%s: task 1 (every 1s) executed only %v in more than 5s", sc.Name, occs(per[1], o.t0))
					return
				}
				if sc.Late3Ms > 0 && len(per[3]) < 2 {
					x.Key, x.Problem = "occurrences-missing", fmt.Sprintf("%s: task 3 (every 1s, scheduled at t0+%dms after the queue had run empty) executed only %v although more than 2s passed before Stop", sc.Name, sc.Late3Ms, occs(per[3], o.t0))
					return
				}
				x.Outcome = strings.Join(summary, " ") + fmt.Sprintf(" errs=%d", len(o.errs))
			}
			return body, check
		},
	}
}

func occs(es []execRec, t0 time.Time) []int64 {
	var r []int64
	for _, e := range es {
		r = append(r, e.ScheduledFor-t0.Unix())
	}
	return r
}

func trim(s string, n int) string {
	if len(s) > n {
		return s[:n] + "..."
	}
	return s
}

type Replay struct {
	Sc    Scenario
	Picks []int
}

func TestCheck(t *testing.T) {
	r := rep.New("C17", "model_checking",
		"real TreeScheduler (instrumented package task/backend/scheduler) on the real clock path in virtual time: task 1 '@every 1s', task 2 '@every 2s' with offset 1s, 1 or 2 workers, a recording executor whose latency is a scheduling point (optionally failing or panicking once) and a recording checkpointer; actor A schedules and re-schedules task 1, actor B schedules and releases task 2, Stop after 5.5s; all interleavings of actors, main loop, workers and timer firings up to the deviation bound. Oracle per schedule: executed occurrences are consecutive occurrences after the last-scheduled time, each once, increasing, never before occurrence+offset, never concurrent per task, none due after Release returned, checkpoints monotone, every call returns, no deadlock/livelock verdict")
	defer r.Write()
	r.Assumption("the mock clock of the upstream tests is not used: the scheduler runs on clock.New(), which is virtual time inside the bubble")
	if n := vsched.FreeRuns(); n > 0 {
		for _, sc := range scenarios() {
			r.Add("race_pass_runs", int64(vsched.FreeRun(t, harness(sc), n)))
		}
		return
	}
	if rep.ReplayPath() != "" {
		var rp Replay
		if err := rep.LoadReplay(&rp); err != nil {
			t.Fatal(err)
		}
		x := vsched.RunOne(t, harness(rp.Sc), rp.Picks)
		if x.Problem != "" {
			r.Violation(x.Key+":"+rp.Sc.Name, x.Problem, rp)
		}
		r.Add("evaluations", 1)
		return
	}
	shard, nshards := rep.Shard()
	bound := 1
	if rep.Thorough() {
		bound = 2
	}
	if b := os.Getenv("VERIF_BOUND"); b != "" {
		fmt.Sscan(b, &bound)
	}
	var deadline time.Time
	if d := os.Getenv("VERIF_DEADLINE_S"); d != "" {
		var f float64
		fmt.Sscan(d, &f)
		if f > 0 {
			deadline = time.Now().Add(time.Duration(f * float64(time.Second)))
		}
	}
	scs := scenarios()
	if only := os.Getenv("VERIF_ONLY"); only != "" {
		var f []Scenario
		for _, sc := range scs {
			if strings.Contains(sc.Name, only) {
				f = append(f, sc)
			}
		}
		scs = f
	}
	for i, sc := range scs {
		sc := sc
		dl := deadline
		if !deadline.IsZero() {
			dl = time.Now().Add(deadline.Sub(time.Now()) / time.Duration(len(scs)-i))
		}
		st := vsched.Explore(t, harness(sc), bound, shard, nshards, dl, 0, func(f vsched.Found) {
			r.Violation(f.Key+":"+sc.Name, f.Problem+" | schedule "+trim(strings.Join(f.Trace, " "), 1500), Replay{Sc: sc, Picks: f.Picks})
		})
		r.Add("evaluations", int64(st.Executions))
		r.Add("schedules", int64(st.Executions))
		r.Add("transitions", int64(st.Transitions))
		r.Add("replay_divergences", int64(st.Diverged))
		r.SetMax("choices_per_schedule", int64(st.MaxChoices))
		r.SetMax("deviation_bound_completed", int64(st.BoundDone))
		for o := range st.Outcomes {
			r.Distinct("nontrivial", sc.Name+"|"+o)
			r.Distinct("states", sc.Name+"|"+o)
		}
		if st.Capped {
			r.Cap("scenario " + sc.Name + " capped by deadline")
		}
		if shard == 0 {
			var one string
			for o := range st.Outcomes {
				one = o
				break
			}
			r.Sample(map[string]any{"scenario": sc, "schedules_in_shard_0": st.Executions, "distinct_outcomes": len(st.Outcomes), "one_outcome": one})
		}
	}
}
