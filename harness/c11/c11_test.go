package c11

import (
	"fmt"
	"math"
	"math/big"
	"sort"
	"strings"
	"testing"
	"time"

	"github.com/influxdata/kapacitor"
	"github.com/influxdata/kapacitor/edge"
	"github.com/influxdata/kapacitor/models"
	"github.com/influxdata/kapacitor/zz_verif/kit"
	"github.com/influxdata/kapacitor/zz_verif/rep"
)

// ---------------------------------------------------------------- inputs

// V is one field value of the aggregated field: int, float or missing.
type V struct {
	K byte // 'i' 'f' 'n'
	I int64
	F float64
}

func (v V) String() string {
	switch v.K {
	case 'i':
		return fmt.Sprintf("%di", v.I)
	case 'f':
		return fmt.Sprintf("%v", v.F)
	}
	return "_"
}

func (v V) val() any {
	if v.K == 'i' {
		return v.I
	}
	return v.F
}

type Case struct {
	Fn         int
	As         string // "" = default (function name)
	PointTimes bool
	Mode       string // batch | stream-runs | stream-each
	Batches    [][]V  // batch mode: batches; stream-runs: runs of equal-time points; stream-each: one sequence (Batches[0])
	Ungrouped  bool   // batch mode: the batch has no group tags and one of its points no tags at all
	Backwards  bool   // stream-runs: the runs arrive with DEcreasing time stamps (every run is still a run of its own)
}

// runTime: the time stamp of batch/run k
func runTime(c Case, k int) time.Time {
	if c.Backwards {
		return tmaxOf(len(c.Batches) - 1 - k)
	}
	return tmaxOf(k)
}

type pt struct {
	v    V
	t    time.Time
	idx  int
	tags map[string]string
	flds map[string]any
}

var groupTags = map[string]string{"h": "a"}

// set per case by check() (the harness runs one case at a time)
func setGroupTags(c Case) {
	if c.Ungrouped {
		groupTags = map[string]string{}
	} else {
		groupTags = map[string]string{"h": "a"}
	}
}

func tmaxOf(k int) time.Time { return kit.T0.Add(time.Duration(k+1) * 100 * time.Second) }

// points of batch k (times strictly increasing with irregular gaps, every point its own tag p and field o)
func pointsOf(c Case, k int) []pt {
	var ps []pt
	for j, v := range c.Batches[k] {
		t := tmaxOf(k).Add(-50 * time.Second).Add(time.Duration(j*(j+1)/2) * time.Second)
		if c.Mode == "stream-runs" {
			t = runTime(c, k)
		}
		p := pt{v: v, t: t, idx: j, tags: map[string]string{"h": "a", "p": fmt.Sprintf("p%d", j)}, flds: map[string]any{"o": int64(10*k + j)}}
		if j == 1 {
			delete(p.tags, "p") // one point of every batch carries the group's tags only
		}
		if c.Ungrouped {
			delete(p.tags, "h")
		}
		if v.K != 'n' {
			p.flds["v"] = v.val()
		}
		ps = append(ps, p)
	}
	return ps
}

// ---------------------------------------------------------------- functions and their definitions

type outv struct {
	val  any   // int64 or float64
	cand []int // indices (into the present points) of the input points this output may stem from (selectors); nil = none
	t    *time.Time
}

type Fn struct {
	Name     string
	Call     string // TICKscript call without leading '|', field is "v"
	Out      string // point | batch | transform
	Selector bool
	EmptyOK  bool
	// ref returns the expected outputs for the present (non-missing) points of one batch, all of one kind
	Ref func(ps []pt, isInt bool) (outs []outv, judged bool)
}

func fl(ps []pt) []float64 {
	r := make([]float64, len(ps))
	for i, p := range ps {
		if p.v.K == 'i' {
			r[i] = float64(p.v.I)
		} else {
			r[i] = p.v.F
		}
	}
	return r
}

func bigSum(ps []pt) *big.Int {
	s := new(big.Int)
	for _, p := range ps {
		s.Add(s, big.NewInt(p.v.I))
	}
	return s
}

func num(isInt bool, f float64) any {
	if isInt {
		return int64(f)
	}
	return f
}

func less(a, b pt) bool {
	if a.v.K == 'i' {
		return a.v.I < b.v.I
	}
	return a.v.F < b.v.F
}
func same(a, b pt) bool { return !less(a, b) && !less(b, a) }

func candidates(ps []pt, pick pt) []int {
	var c []int
	for i, p := range ps {
		if same(p, pick) {
			c = append(c, i)
		}
	}
	return c
}

func selector(choose func(ps []pt) (pt, bool)) func(ps []pt, isInt bool) ([]outv, bool) {
	return func(ps []pt, isInt bool) ([]outv, bool) {
		if len(ps) == 0 {
			return nil, true
		}
		p, ok := choose(ps)
		if !ok {
			return nil, true
		}
		return []outv{{val: p.v.val(), cand: candidates(ps, p)}}, true
	}
}

func sorted(ps []pt) []pt {
	s := append([]pt(nil), ps...)
	sort.SliceStable(s, func(i, j int) bool { return less(s[i], s[j]) })
	return s
}

func percentile(pc float64) func(ps []pt, isInt bool) ([]outv, bool) {
	return selector(func(ps []pt) (pt, bool) {
		s := sorted(ps)
		// InfluxQL nearest-rank definition
		i := int(math.Floor(float64(len(s))*pc/100.0+0.5)) - 1
		if i < 0 || i >= len(s) {
			return pt{}, false
		}
		return s[i], true
	})
}

func topBottom(n int, top bool) func(ps []pt, isInt bool) ([]outv, bool) {
	return func(ps []pt, isInt bool) ([]outv, bool) {
		s := sorted(ps)
		if top {
			for i, j := 0, len(s)-1; i < j; i, j = i+1, j-1 {
				s[i], s[j] = s[j], s[i]
			}
		}
		if len(s) > n {
			s = s[:n]
		}
		var outs []outv
		for _, p := range s {
			outs = append(outs, outv{val: p.v.val(), cand: candidates(ps, p)})
		}
		return outs, true
	}
}

var fns = []Fn{
	{Name: "count", Call: "count('v')", Out: "point", EmptyOK: true, Ref: func(ps []pt, isInt bool) ([]outv, bool) {
		return []outv{{val: int64(len(ps))}}, true
	}},
	{Name: "sum", Call: "sum('v')", Out: "point", EmptyOK: true, Ref: func(ps []pt, isInt bool) ([]outv, bool) {
		if len(ps) == 0 {
			return []outv{{val: float64(0)}}, true // untyped zero: compared numerically
		}
		if isInt {
			s := bigSum(ps)
			if !s.IsInt64() {
				return nil, false
			}
			return []outv{{val: s.Int64()}}, true
		}
		s := 0.0
		for _, f := range fl(ps) {
			s += f
		}
		return []outv{{val: s}}, true
	}},
	{Name: "mean", Call: "mean('v')", Out: "point", Ref: func(ps []pt, isInt bool) ([]outv, bool) {
		if len(ps) == 0 {
			return nil, true
		}
		if isInt {
			s := new(big.Float).SetInt(bigSum(ps))
			s.Quo(s, big.NewFloat(float64(len(ps))))
			f, _ := s.Float64()
			return []outv{{val: f}}, true
		}
		s := 0.0
		for _, f := range fl(ps) {
			s += f
		}
		return []outv{{val: s / float64(len(ps))}}, true
	}},
	{Name: "median", Call: "median('v')", Out: "point", Ref: func(ps []pt, isInt bool) ([]outv, bool) {
		if len(ps) == 0 {
			return nil, true
		}
		s := fl(sorted(ps))
		n := len(s)
		if n%2 == 1 {
			return []outv{{val: s[n/2]}}, true
		}
		return []outv{{val: s[n/2-1]/2 + s[n/2]/2}}, true
	}},
	{Name: "mode", Call: "mode('v')", Out: "point", Ref: func(ps []pt, isInt bool) ([]outv, bool) {
		if len(ps) == 0 {
			return nil, true
		}
		// any most frequent value is a mode; encode the alternatives as candidates of a pseudo-selector
		best := 0
		cnt := map[string]int{}
		for _, p := range ps {
			cnt[p.v.String()]++
			if cnt[p.v.String()] > best {
				best = cnt[p.v.String()]
			}
		}
		var c []int
		for i, p := range ps {
			if cnt[p.v.String()] == best {
				c = append(c, i)
			}
		}
		return []outv{{val: nil, cand: c}}, true
	}},
	{Name: "min", Call: "min('v')", Out: "point", Selector: true, Ref: selector(func(ps []pt) (pt, bool) { return sorted(ps)[0], true })},
	{Name: "max", Call: "max('v')", Out: "point", Selector: true, Ref: selector(func(ps []pt) (pt, bool) { return sorted(ps)[len(ps)-1], true })},
	{Name: "first", Call: "first('v')", Out: "point", Selector: true, Ref: func(ps []pt, isInt bool) ([]outv, bool) {
		if len(ps) == 0 {
			return nil, true
		}
		return []outv{{val: ps[0].v.val(), cand: []int{0}}}, true
	}},
	{Name: "last", Call: "last('v')", Out: "point", Selector: true, Ref: func(ps []pt, isInt bool) ([]outv, bool) {
		if len(ps) == 0 {
			return nil, true
		}
		return []outv{{val: ps[len(ps)-1].v.val(), cand: []int{len(ps) - 1}}}, true
	}},
	{Name: "spread", Call: "spread('v')", Out: "point", Ref: func(ps []pt, isInt bool) ([]outv, bool) {
		if len(ps) == 0 {
			return nil, true
		}
		s := sorted(ps)
		if isInt {
			d := new(big.Int).Sub(big.NewInt(s[len(s)-1].v.I), big.NewInt(s[0].v.I))
			if !d.IsInt64() {
				return nil, false
			}
			return []outv{{val: d.Int64()}}, true
		}
		return []outv{{val: s[len(s)-1].v.F - s[0].v.F}}, true
	}},
	{Name: "stddev", Call: "stddev('v')", Out: "point", Ref: func(ps []pt, isInt bool) ([]outv, bool) {
		if len(ps) == 0 {
			return nil, true
		}
		if len(ps) < 2 {
			return nil, false // sample standard deviation of one value is undefined: not judged
		}
		f := fl(ps)
		m := 0.0
		for _, x := range f {
			m += x
		}
		m /= float64(len(f))
		ss := 0.0
		for _, x := range f {
			ss += (x - m) * (x - m)
		}
		return []outv{{val: math.Sqrt(ss / float64(len(f)-1))}}, true
	}},
	{Name: "percentile50", Call: "percentile('v', 50.0)", Out: "point", Selector: true, Ref: percentile(50)},
	{Name: "percentile90", Call: "percentile('v', 90.0)", Out: "point", Selector: true, Ref: percentile(90)},
	{Name: "percentile100", Call: "percentile('v', 100.0)", Out: "point", Selector: true, Ref: percentile(100)},
	{Name: "percentile10", Call: "percentile('v', 10.0)", Out: "point", Selector: true, Ref: percentile(10)},
	{Name: "distinct", Call: "distinct('v')", Out: "batch", Ref: func(ps []pt, isInt bool) ([]outv, bool) {
		var outs []outv
		seen := map[string]bool{}
		for _, p := range sorted(ps) {
			if !seen[p.v.String()] {
				seen[p.v.String()] = true
				outs = append(outs, outv{val: p.v.val(), cand: candidates(ps, p)})
			}
		}
		return outs, true
	}},
	{Name: "top1", Call: "top(1, 'v')", Out: "batch", Ref: topBottom(1, true)},
	{Name: "top2", Call: "top(2, 'v')", Out: "batch", Ref: topBottom(2, true)},
	{Name: "bottom1", Call: "bottom(1, 'v')", Out: "batch", Ref: topBottom(1, false)},
	{Name: "bottom2", Call: "bottom(2, 'v', 'p')", Out: "batch", Ref: topBottom(2, false)},
	{Name: "elapsed", Call: "elapsed('v', 1s)", Out: "transform", Ref: func(ps []pt, isInt bool) ([]outv, bool) {
		var outs []outv
		for i := 1; i < len(ps); i++ {
			t := ps[i].t
			outs = append(outs, outv{val: int64(ps[i].t.Sub(ps[i-1].t) / time.Second), t: &t})
		}
		return outs, true
	}},
	{Name: "difference", Call: "difference('v')", Out: "transform", Ref: func(ps []pt, isInt bool) ([]outv, bool) {
		var outs []outv
		for i := 1; i < len(ps); i++ {
			t := ps[i].t
			if isInt {
				outs = append(outs, outv{val: ps[i].v.I - ps[i-1].v.I, t: &t})
			} else {
				outs = append(outs, outv{val: ps[i].v.F - ps[i-1].v.F, t: &t})
			}
		}
		return outs, true
	}},
	{Name: "cumulativeSum", Call: "cumulativeSum('v')", Out: "transform", Ref: func(ps []pt, isInt bool) ([]outv, bool) {
		var outs []outv
		si, sf := int64(0), 0.0
		for i := range ps {
			t := ps[i].t
			if isInt {
				si += ps[i].v.I
				outs = append(outs, outv{val: si, t: &t})
			} else {
				sf += ps[i].v.F
				outs = append(outs, outv{val: sf, t: &t})
			}
		}
		return outs, true
	}},
	{Name: "movingAverage2", Call: "movingAverage('v', 2)", Out: "transform", Ref: func(ps []pt, isInt bool) ([]outv, bool) {
		var outs []outv
		f := fl(ps)
		for i := 1; i < len(ps); i++ {
			t := ps[i].t
			outs = append(outs, outv{val: (f[i-1] + f[i]) / 2, t: &t})
		}
		return outs, true
	}},
	{Name: "movingAverage3", Call: "movingAverage('v', 3)", Out: "transform", Ref: func(ps []pt, isInt bool) ([]outv, bool) {
		var outs []outv
		f := fl(ps)
		for i := 2; i < len(ps); i++ {
			t := ps[i].t
			outs = append(outs, outv{val: (f[i-2] + f[i-1] + f[i]) / 3, t: &t})
		}
		return outs, true
	}},
}

// ---------------------------------------------------------------- running

func (c Case) asName() string {
	if c.As != "" {
		return c.As
	}
	n := fns[c.Fn].Name
	return strings.TrimRight(n, "0123456789")
}

func (c Case) script() string {
	f := fns[c.Fn]
	call := f.Call
	if c.As != "" {
		call += ".as('" + c.As + "')"
	}
	if c.PointTimes {
		call += ".usePointTimes()"
	}
	if c.Mode == "batch" {
		return "batch|query('SELECT v FROM \"db\".\"rp\".\"m\"').period(100s).every(100s)\n  |" + call + "\n  |log().prefix('X')\n"
	}
	return "stream|from().measurement('m').groupBy('h')\n  |" + call + "\n  |log().prefix('X')\n"
}

type result struct {
	inputAltered string // batch mode: a Fields/Tags map handed to the task was modified
	items        []kit.Item
	errs         []kit.ErrRec
	err          string
	leak         string
	pan          string
}

func run(t *testing.T, c Case) (res result) {
	leak, pan := kit.Bubble(t, func() {
		env, err := kit.NewEnv("c11")
		if err != nil {
			panic(err)
		}
		tt := kapacitor.StreamTask
		if c.Mode == "batch" {
			tt = kapacitor.BatchTask
		}
		if _, err := env.Start("t", c.script(), tt, kit.DBRP); err != nil {
			res.err = err.Error()
			env.TM.Close()
			return
		}
		kit.Wait()
		switch c.Mode {
		case "batch":
			cols := env.TM.BatchCollectors("t")
			var handed [][]pt
			defer func() {
				// nothing the task was handed may have been modified (messages are shared between branches)
				for k, ps := range handed {
					fresh := pointsOf(c, k)
					for j := range ps {
						if kit.FmtFields(ps[j].flds) != kit.FmtFields(fresh[j].flds) || kit.FmtTags(ps[j].tags) != kit.FmtTags(fresh[j].tags) {
							res.inputAltered = fmt.Sprintf("batch %d point %d was handed over as fields {%s} tags {%s} and now reads fields {%s} tags {%s}", k, j, kit.FmtFields(fresh[j].flds), kit.FmtTags(fresh[j].tags), kit.FmtFields(ps[j].flds), kit.FmtTags(ps[j].tags))
						}
					}
				}
			}()
			for k := range c.Batches {
				var bps []edge.BatchPointMessage
				ps := pointsOf(c, k)
				handed = append(handed, ps)
				for _, p := range ps {
					bps = append(bps, edge.NewBatchPointMessage(models.Fields(p.flds), models.Tags(p.tags), p.t))
				}
				b := edge.NewBufferedBatchMessage(edge.NewBeginBatchMessage("m", models.Tags(copyTags(groupTags)), false, tmaxOf(k), len(bps)), bps, edge.NewEndBatchMessage())
				if err := cols[0].CollectBatch(b); err != nil {
					res.err = err.Error()
				}
				kit.Wait()
			}
			for _, col := range cols {
				col.Close()
			}
			kit.Wait()
		default:
			for k := range c.Batches {
				for _, p := range pointsOf(c, k) {
					if err := env.Write("db", "rp", kit.MkPoint("m", p.tags, p.flds, p.t)); err != nil {
						res.err = err.Error()
					}
					kit.Wait()
				}
			}
			// a later point of the same group terminates the last run
			if c.Mode == "stream-runs" {
				env.Write("db", "rp", kit.MkPoint("m", map[string]string{"h": "a", "p": "end"}, map[string]any{"o": int64(-1)}, tmaxOf(len(c.Batches)+5)))
				kit.Wait()
			}
		}
		env.TM.StopTask("t")
		kit.Wait()
		env.TM.Close()
		kit.Wait()
		if s := env.Diag.Sink("X"); s != nil {
			res.items = append(res.items, s.Items...)
		}
		res.errs = env.Diag.ErrorsCopy()
	})
	res.leak = leak
	if pan != nil {
		res.pan = fmt.Sprint(pan)
	}
	return
}

// ---------------------------------------------------------------- oracle

type problem struct{ key, msg string }

func numEq(got, want any) bool {
	var g, w float64
	switch x := got.(type) {
	case int64:
		g = float64(x)
	case float64:
		g = x
	default:
		return false
	}
	switch x := want.(type) {
	case int64:
		w = float64(x)
	case float64:
		w = x
	}
	if g == w {
		return true
	}
	return math.Abs(g-w) <= 1e-9*math.Max(1, math.Max(math.Abs(g), math.Abs(w)))
}

// typeOK: is the Go type of the emitted value the documented one?
func typeOK(f Fn, isInt, empty bool, got any) bool {
	_, gi := got.(int64)
	_, gf := got.(float64)
	switch f.Name {
	case "count", "elapsed":
		return gi
	case "mean", "median", "stddev", "movingAverage2", "movingAverage3":
		return gf
	}
	if empty {
		return gi || gf
	}
	if isInt {
		return gi
	}
	return gf
}

func present(ps []pt) []pt {
	var r []pt
	for _, p := range ps {
		if p.v.K != 'n' {
			r = append(r, p)
		}
	}
	return r
}

func kindOf(ps []pt) (isInt bool, mixed bool) {
	ni, nf := 0, 0
	for _, p := range ps {
		if p.v.K == 'i' {
			ni++
		} else {
			nf++
		}
	}
	return ni > 0, ni > 0 && nf > 0
}

func tagsEq(a, b map[string]string) bool { return kit.FmtTags(a) == kit.FmtTags(b) }
func tagsSuper(a, sub map[string]string) bool {
	for k, v := range sub {
		if a[k] != v {
			return false
		}
	}
	return true
}

func describe(c Case) string {
	var bs []string
	for _, b := range c.Batches {
		var vs []string
		for _, v := range b {
			vs = append(vs, v.String())
		}
		bs = append(bs, "["+strings.Join(vs, " ")+"]")
	}
	mode := c.Mode
	if c.Ungrouped {
		mode += "(no group tags)"
	}
	if c.Backwards {
		mode += "(runs arriving with decreasing time stamps)"
	}
	return fmt.Sprintf("%s %s input %s", mode, strings.ReplaceAll(strings.TrimSpace(c.script()), "\n  ", ""), strings.Join(bs, " "))
}

func itemStr(it kit.Item) string {
	if it.P != nil {
		return it.P.String()
	}
	return it.B.String()
}

func itemsStr(its []kit.Item) string {
	var s []string
	for _, it := range its {
		s = append(s, itemStr(it))
	}
	return "[" + strings.Join(s, " ") + "]"
}

// checkPointItem: the emitted point for one batch/run of an aggregator
func checkPointItem(c Case, f Fn, ps []pt, isInt bool, want outv, p *kit.Pt, tmax time.Time) string {
	as := c.asName()
	if p.Name != "m" {
		return fmt.Sprintf("name %q, want m", p.Name)
	}
	if f.Selector {
		cand := want.cand
		if c.Mode == "stream-runs" && (f.Name == "first" || f.Name == "last") {
			// all points of a run carry the same time: every one of them is the first and the last
			cand = nil
			for j := range ps {
				cand = append(cand, j)
			}
		}
		for _, j := range cand {
			src := ps[j]
			wf := map[string]any{}
			for k, v := range src.flds {
				wf[k] = v
			}
			wf[as] = wf["v"]
			if as != "v" {
				delete(wf, "v")
			}
			wt := tmax
			if c.PointTimes {
				wt = src.t
			}
			if kit.FmtFields(p.Fields) == kit.FmtFields(wf) && tagsEq(p.Tags, src.tags) && p.T.Equal(wt) {
				return ""
			}
		}
		return fmt.Sprintf("selector output %s does not equal any admissible selected point (value %v of input points %v, time %s)", p, want.val, want.cand, map[bool]string{true: "of the point", false: "of the batch"}[c.PointTimes])
	}
	if !tagsEq(p.Tags, groupTags) {
		return fmt.Sprintf("tags %s, want the group's tags %s", kit.FmtTags(p.Tags), kit.FmtTags(groupTags))
	}
	if !p.T.Equal(tmax) {
		return fmt.Sprintf("time %d, want the batch time %d", p.T.Unix(), tmax.Unix())
	}
	if len(p.Fields) != 1 {
		return fmt.Sprintf("fields %s, want exactly {%s}", kit.FmtFields(p.Fields), as)
	}
	got, ok := p.Fields[as]
	if !ok {
		return fmt.Sprintf("fields %s, want field %q", kit.FmtFields(p.Fields), as)
	}
	if !typeOK(f, isInt, len(ps) == 0, got) {
		return fmt.Sprintf("value %T(%v): wrong type for %s over %s input", got, got, f.Name, map[bool]string{true: "int", false: "float"}[isInt])
	}
	if want.val == nil { // mode: any most frequent value
		for _, j := range want.cand {
			if numEq(got, ps[j].v.val()) {
				return ""
			}
		}
		return fmt.Sprintf("value %v is not a most frequent value", got)
	}
	if !numEq(got, want.val) {
		return fmt.Sprintf("value %v, want %v", got, want.val)
	}
	return ""
}

func checkBatchItem(c Case, f Fn, ps []pt, isInt bool, wants []outv, b *kit.Bt, tmax time.Time) string {
	as := c.asName()
	if b.Name != "m" || !tagsEq(b.Tags, groupTags) {
		return fmt.Sprintf("batch name %q tags %s, want m %s", b.Name, kit.FmtTags(b.Tags), kit.FmtTags(groupTags))
	}
	if !b.TMax.Equal(tmax) {
		return fmt.Sprintf("batch time %d, want %d", b.TMax.Unix(), tmax.Unix())
	}
	if len(b.Points) != len(wants) {
		return fmt.Sprintf("%d points, want %d", len(b.Points), len(wants))
	}
	if f.Out == "transform" {
		for i, w := range wants {
			p := b.Points[i]
			got, ok := p.Fields[as]
			if !ok || len(p.Fields) != 1 {
				return fmt.Sprintf("point %d fields %s, want exactly {%s}", i, kit.FmtFields(p.Fields), as)
			}
			if !typeOK(f, isInt, false, got) || !numEq(got, w.val) {
				return fmt.Sprintf("point %d value %T(%v), want %v", i, got, got, w.val)
			}
			if !p.T.Equal(*w.t) {
				return fmt.Sprintf("point %d time %d, want %d", i, p.T.Unix(), w.t.Unix())
			}
			// a transformation's output belongs to the group: it carries the group's tags, not those of the input point
			if !tagsEq(p.Tags, groupTags) {
				return fmt.Sprintf("point %d tags %s, want the group's tags %s", i, kit.FmtTags(p.Tags), kit.FmtTags(groupTags))
			}
		}
		return ""
	}
	// distinct/top/bottom: match as multisets
	used := make([]bool, len(wants))
	for i, p := range b.Points {
		got, ok := p.Fields[as]
		if !ok {
			return fmt.Sprintf("point %d fields %s, want field %q", i, kit.FmtFields(p.Fields), as)
		}
		if !typeOK(f, isInt, false, got) {
			return fmt.Sprintf("point %d value %T(%v): wrong type", i, got, got)
		}
		if !tagsSuper(p.Tags, groupTags) {
			return fmt.Sprintf("point %d tags %s lack the group's tags", i, kit.FmtTags(p.Tags))
		}
		found := false
		for k, w := range wants {
			if used[k] || !numEq(got, w.val) {
				continue
			}
			// time: batch time, or (point times) the time of an input point with that value
			okT := p.T.Equal(tmax)
			if c.PointTimes {
				okT = false
				for _, j := range w.cand {
					if p.T.Equal(ps[j].t) {
						okT = true
					}
				}
			}
			if !okT {
				return fmt.Sprintf("point %d (value %v) time %d is not admissible (usePointTimes=%v)", i, got, p.T.Unix(), c.PointTimes)
			}
			if strings.HasPrefix(f.Name, "top") || strings.HasPrefix(f.Name, "bottom") {
				// a selected point keeps its own tags (on top of the group's), nobody else's
				okTags := false
				for _, j := range w.cand {
					if tagsEq(p.Tags, ps[j].tags) {
						okTags = true
					}
				}
				if !okTags {
					return fmt.Sprintf("point %d (value %v) carries tags %s, which are not the tags of an input point with that value", i, got, kit.FmtTags(p.Tags))
				}
			}
			used[k], found = true, true
			break
		}
		if !found {
			return fmt.Sprintf("point %d value %v is not among the expected values", i, got)
		}
	}
	return ""
}

func copyTags(m map[string]string) map[string]string {
	r := map[string]string{}
	for k, v := range m {
		r[k] = v
	}
	return r
}

func check(t *testing.T, c Case, r *rep.R) []problem {
	setGroupTags(c)
	f := fns[c.Fn]
	res := run(t, c)
	var ps []problem
	cls := f.Name + ":" + c.Mode
	if c.PointTimes {
		cls += ":usePointTimes"
	}
	for _, b := range c.Batches {
		for _, v := range b {
			if v.K == 'i' && (v.I >= 1<<61 || v.I <= -(1<<61)) {
				if !strings.HasSuffix(cls, ":extreme") {
					cls += ":extreme"
				}
			}
		}
	}
	if res.pan != "" {
		return []problem{{"panic:" + cls, describe(c) + ": " + rep.Short(res.pan)}}
	}
	if res.leak != "" {
		ps = append(ps, problem{"leak:" + cls, describe(c) + ": " + rep.Short(res.leak)})
	}
	if res.err != "" {
		return append(ps, problem{"rejected:" + cls, describe(c) + ": " + res.err})
	}
	if res.inputAltered != "" {
		ps = append(ps, problem{"input-message-altered:" + cls, describe(c) + ": " + res.inputAltered})
	}
	items := res.items
	fail := func(kind, msg string) []problem {
		return append(ps, problem{kind + ":" + cls, fmt.Sprintf("%s: %s; sink saw %s", describe(c), msg, itemsStr(res.items))})
	}
	nontrivial := false
	switch c.Mode {
	case "batch", "stream-runs":
		for k := range c.Batches {
			all := pointsOf(c, k)
			pr := present(all)
			isInt, mixed := kindOf(pr)
			if mixed {
				return ps // not generated
			}
			wants, judged := f.Ref(pr, isInt)
			tmax := runTime(c, k)
			if c.Mode == "stream-runs" && len(all) == 0 {
				continue // an empty run does not exist in a stream
			}
			emits := true
			switch f.Out {
			case "point":
				emits = len(wants) > 0 || !judged
				if len(pr) == 0 {
					emits = f.EmptyOK
					if c.Mode == "stream-runs" {
						emits = false // only points without the field: nothing to aggregate
					}
				}
				if judged && len(wants) == 0 {
					emits = false
				}
			case "batch":
				emits = len(pr) > 0
			case "transform":
				emits = true
			}
			if !emits {
				// nothing of this batch may appear: the next item (if any) must belong to a later batch
				if c.Backwards {
					continue
				}
				if len(items) > 0 && itemTime(items[0]).Equal(tmax) && len(pr) == 0 {
					return fail("emitted-on-empty", fmt.Sprintf("batch %d has no value of the field but something was emitted for it", k))
				}
				if len(items) > 0 && !itemTime(items[0]).After(tmax) && len(pr) > 0 && judged {
					return fail("unexpected-output", fmt.Sprintf("batch %d: no output is defined (e.g. percentile rank out of range)", k))
				}
				continue
			}
			if len(items) == 0 {
				return fail("missing-output", fmt.Sprintf("nothing was emitted for batch %d", k))
			}
			it := items[0]
			items = items[1:]
			if !judged {
				continue
			}
			nontrivial = nontrivial || len(pr) > 0
			var msg string
			switch {
			case f.Out == "point" && it.P != nil:
				msg = checkPointItem(c, f, pr, isInt, wants[0], it.P, tmax)
			case f.Out != "point" && it.B != nil:
				msg = checkBatchItem(c, f, pr, isInt, wants, it.B, tmax)
			default:
				msg = "wrong kind of message (point vs batch)"
			}
			if msg != "" {
				return fail(symptom(msg), fmt.Sprintf("batch %d: %s", k, msg))
			}
		}
		if len(items) > 0 {
			return fail("extra-output", fmt.Sprintf("%d more items than batches call for", len(items)))
		}
	case "stream-each":
		pr := present(pointsOf(c, 0))
		isInt, mixed := kindOf(pr)
		if mixed {
			return ps
		}
		wants, judged := f.Ref(pr, isInt)
		if !judged {
			return ps
		}
		if len(items) != len(wants) {
			return fail("wrong-count", fmt.Sprintf("%d points emitted, want %d", len(items), len(wants)))
		}
		as := c.asName()
		for i, w := range wants {
			p := items[i].P
			if p == nil {
				return fail("wrong-output", "batch emitted on a stream edge")
			}
			got, ok := p.Fields[as]
			if !ok || len(p.Fields) != 1 || !typeOK(f, isInt, false, got) || !numEq(got, w.val) {
				return fail("wrong-value", fmt.Sprintf("point %d fields %s, want {%s=%v}", i, kit.FmtFields(p.Fields), as, w.val))
			}
			if !p.T.Equal(*w.t) || p.Name != "m" || !tagsEq(p.Tags, groupTags) {
				return fail("wrong-time", fmt.Sprintf("point %d is %s, want name m, the group's tags and time %d", i, p, w.t.Unix()))
			}
		}
		nontrivial = len(wants) > 0
	}
	if r != nil && nontrivial {
		r.AddDistinct("nontrivial", 1)
	}
	return ps
}

// symptom classifies an oracle message so that one recorded finding does not hide a different failure
func symptom(msg string) string {
	switch {
	case strings.Contains(msg, "wrong type"):
		return "wrong-type"
	case strings.Contains(msg, "time "):
		return "wrong-time"
	case strings.Contains(msg, "tags "):
		return "wrong-tags"
	case strings.Contains(msg, "points, want") || strings.Contains(msg, "points emitted"):
		return "wrong-count"
	case strings.Contains(msg, "selector output"):
		return "wrong-selection"
	}
	return "wrong-value"
}

func itemTime(it kit.Item) time.Time {
	if it.P != nil {
		return it.P.T
	}
	return it.B.TMax
}

// ---------------------------------------------------------------- enumeration

var intVals = []V{{K: 'i', I: -2}, {K: 'i', I: 0}, {K: 'i', I: 1}, {K: 'i', I: 3}}
var floatVals = []V{{K: 'f', F: -1.5}, {K: 'f', F: 0}, {K: 'f', F: 2.5}, {K: 'f', F: 4}}
var missing = V{K: 'n'}

func seqs(alpha []V, maxLen int) [][]V {
	out := [][]V{{}}
	frontier := [][]V{{}}
	for l := 1; l <= maxLen; l++ {
		var next [][]V
		for _, s := range frontier {
			for _, v := range alpha {
				next = append(next, append(append([]V(nil), s...), v))
			}
		}
		out = append(out, next...)
		frontier = next
	}
	return out
}

func TestCheck(t *testing.T) {
	r := rep.New("C11", "model_checking",
		"aggregations on real tasks: every InfluxQL function node (count sum mean median mode min max first last spread stddev percentile(10/50/90/100) distinct top(1/2) bottom(1/2,+tag) elapsed difference cumulativeSum movingAverage(2/3)) x as() x usePointTimes() is run as a real batch task fed through its BatchCollector and as a real stream task. Inputs, exhaustively: every single batch of up to 4 points over 4 int values / 4 float values / 'field missing'; every PAIR of batches of up to 2 points over 2 int, 2 float values and 'missing' (reduce-context reset, field type changing between batches, empty batches in between); stream mode: the same as runs of equal-time points closed by a later point (pairs of runs also arriving with decreasing time stamps), and (transformations) every sequence of up to 4 points; plus all single batches of up to 3 points over {2^62, 1, -2^62}. Oracle: independent reference implementation of every function (InfluxQL definitions, big-number arithmetic for int sums) deciding value, Go type, time stamp (batch time / selected point's time), name, tags (group tags; selected point's tags and other fields for selectors) and whether anything is emitted at all; in batch mode the maps handed to the task must be unmodified afterwards (messages are shared between sibling branches). states = distinct cases, transitions = batches/points fed")
	defer r.Write()
	r.Assumption("ties: any tied point is accepted for min/max/percentile/top/bottom, any most frequent value for mode")
	r.Assumption("stddev of a single value and int sums/spreads outside int64 are not judged")
	r.Assumption("within one batch the field has one type (InfluxDB guarantees this per shard); mixed-type batches are not generated")
	r.Assumption("the last run of equal-time stream points is only emitted once a later point arrives; the harness sends one")
	r.Assumption("float results are compared with relative tolerance 1e-9")
	r.Assumption("extreme magnitudes: int values of +-2^62 only (the reference is exact there); float overflow/cancellation is IEEE behaviour and not judged")

	if rep.ReplayPath() != "" {
		var c Case
		if err := rep.LoadReplay(&c); err != nil {
			t.Fatal(err)
		}
		for _, p := range check(t, c, r) {
			r.Violation(p.key, p.msg, c)
		}
		r.Add("evaluations", 1)
		return
	}
	// inputs
	var single [][]V
	ml := 4
	if !rep.Thorough() {
		ml = 3
	}
	single = append(single, seqs(append(append([]V(nil), intVals...), missing), ml)...)
	single = append(single, seqs(append(append([]V(nil), floatVals...), missing), ml)[1:]...)
	small := seqs([]V{intVals[2], intVals[3], missing}, 2)
	small = append(small, seqs([]V{floatVals[2], floatVals[0], missing}, 2)[1:]...)
	var inputs [][][]V
	for _, s := range single {
		inputs = append(inputs, [][]V{s})
	}
	for _, a := range small {
		for _, b := range small {
			inputs = append(inputs, [][]V{a, b})
		}
	}
	// extreme magnitudes (ints only: exact reference arithmetic): single batches of up to 3 points, default options
	nNormal := len(inputs)
	for _, s := range seqs([]V{{K: 'i', I: 1 << 62}, {K: 'i', I: 1}, {K: 'i', I: -(1 << 62)}}, 3)[1:] {
		inputs = append(inputs, [][]V{s})
	}
	n := 0
	runCase := func(c Case) bool {
		n++
		if !rep.Mine(n) {
			return true
		}
		if r.Expired() {
			r.Cap("deadline")
			return false
		}
		rep.Current(c)
		r.Add("states", 1)
		r.Add("evaluations", 1)
		tr := 0
		for _, b := range c.Batches {
			tr += len(b) + 1
		}
		r.Add("transitions", int64(tr))
		for _, p := range check(t, c, r) {
			r.Violation(p.key, p.msg, c)
		}
		if r.WantSample() && n%4001 == 7 {
			r.Sample(map[string]any{"case": describe(c)})
		}
		return true
	}
	for fi, f := range fns {
		for _, as := range []string{"", "x"} {
			for _, ptm := range []bool{false, true} {
				if !rep.Thorough() && as == "x" && ptm && f.Out == "transform" {
					continue
				}
				for ii, in := range inputs {
					if ii >= nNormal && (as != "" || ptm) {
						continue
					}
					if !runCase(Case{Fn: fi, As: as, PointTimes: ptm, Mode: "batch", Batches: in}) {
						return
					}
					if f.Out == "batch" && as == "" && ii < nNormal {
						if !runCase(Case{Fn: fi, As: as, PointTimes: ptm, Mode: "batch", Batches: in, Ungrouped: true}) {
							return
						}
					}
					if f.Out != "transform" {
						if !runCase(Case{Fn: fi, As: as, PointTimes: ptm, Mode: "stream-runs", Batches: in}) {
							return
						}
						if len(in) == 2 && len(in[0]) > 0 && len(in[1]) > 0 && as == "" {
							if !runCase(Case{Fn: fi, As: as, PointTimes: ptm, Mode: "stream-runs", Batches: in, Backwards: true}) {
								return
							}
						}
					} else if len(in) == 1 {
						if !runCase(Case{Fn: fi, As: as, PointTimes: ptm, Mode: "stream-each", Batches: in}) {
							return
						}
					}
				}
			}
		}
	}
}
