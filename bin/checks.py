# Registry of checks for bin/check. pkg: harness directory (virtual package zz_verif/<pkg>).
CHECKS = {
    "C03": {"pkg": "c03", "deps": ["kit"], "level": "model_checking",
            "deadline_s": {"quick": 240, "thorough": 3000}},
    "C01": {"pkg": "c01", "deps": ["kit"], "level": "model_checking", "closure": [["modeltrans", "model_reachable_trans"]],
            "deadline_s": {"quick": 300, "thorough": 3000}},
    "C04": {"pkg": "c04", "deps": [], "level": "model_checking",
            "deadline_s": {"quick": 300, "thorough": 3000}},
    "C20": {"pkg": "c20", "deps": [], "level": "model_checking",
            "deadline_s": {"quick": 300, "thorough": 3000}},
    "C15": {"pkg": "c15", "deps": [], "level": "model_checking",
            "deadline_s": {"quick": 300, "thorough": 3000}},
    "C13": {"pkg": "c13", "deps": ["kit"], "level": "exploration",
            "deadline_s": {"quick": 300, "thorough": 3000}},
    "C18": {"pkg": "c18", "deps": ["kit"], "level": "exploration",
            "deadline_s": {"quick": 300, "thorough": 3000}},
}
