package kapacitor

import "fmt"

// VerifQueueKey exposes the indices of a CircularQueue (overlay only, C12 harness).
func VerifQueueKey[T any](q *CircularQueue[T]) string {
	return fmt.Sprintf("%d,%d,%d,%d", q.head, q.tail, q.Len, len(q.data))
}
