// Package rep is the result/evidence writer shared by all /verif harnesses.
// It has no kapacitor dependency. A worker process fills one R and writes it as
// JSON to $VERIF_OUT; /verif/bin/check merges the shards into evidence/<id>.json.
package rep

import (
	"encoding/json"
	"fmt"
	"hash/fnv"
	"os"
	"sort"
	"strconv"
	"strings"
	"sync"
	"sync/atomic"
	"time"
)

type Violation struct {
	Key    string `json:"key"`
	Msg    string `json:"msg"`
	Replay any    `json:"replay,omitempty"`
	Count  int    `json:"count"`
}

type R struct {
	mu             sync.Mutex
	ID             string
	Level          string
	Rule           string
	Counters       map[string]int64
	Max            map[string]int64
	samples        []any
	maxSamples     int
	viol           map[string]*Violation
	distinct       map[string]map[uint64]struct{}
	export         map[string]bool
	byConstruction map[string]int64
	Assume         []string
	Caps           []string
	Notes          map[string]any
	start          time.Time
	deadline       time.Time
}

func New(id, level, rule string) *R {
	r := &R{ID: id, Level: level, Rule: rule,
		Counters: map[string]int64{}, Max: map[string]int64{}, maxSamples: 6,
		viol: map[string]*Violation{}, distinct: map[string]map[uint64]struct{}{},
		Notes: map[string]any{}, start: time.Now()}
	if s := os.Getenv("VERIF_DEADLINE_S"); s != "" {
		if f, err := strconv.ParseFloat(s, 64); err == nil && f > 0 {
			r.deadline = r.start.Add(time.Duration(f * float64(time.Second)))
		}
	}
	return r
}

func Tier() string {
	if t := os.Getenv("VERIF_TIER"); t != "" {
		return t
	}
	return "quick"
}
func Thorough() bool { return Tier() == "thorough" }

// Shard returns (index, count) of this worker.
func Shard() (int, int) {
	i, _ := strconv.Atoi(os.Getenv("VERIF_SHARD"))
	n, _ := strconv.Atoi(os.Getenv("VERIF_NSHARDS"))
	if n <= 0 {
		n = 1
	}
	return i, n
}

// Mine reports whether case number k belongs to this shard.
func Mine(k int) bool { i, n := Shard(); return k%n == i }

func Seed() int64 { s, _ := strconv.ParseInt(os.Getenv("VERIF_SEED"), 10, 64); return s }

func ReplayPath() string { return os.Getenv("VERIF_REPLAY") }

// LoadReplay decodes the replay artefact (the "replay" member written by the driver).
func LoadReplay(v any) error {
	// a replayed case can freeze the process just like the original did: arm the stall watchdog
	beat()
	b, err := os.ReadFile(ReplayPath())
	if err != nil {
		return err
	}
	var w struct {
		Replay json.RawMessage `json:"replay"`
	}
	if err := json.Unmarshal(b, &w); err != nil {
		return err
	}
	return json.Unmarshal(w.Replay, v)
}

// Expired: the harness-internal deadline passed; outer loops stop and record a cap.
func (r *R) Expired() bool {
	return !r.deadline.IsZero() && time.Now().After(r.deadline)
}

func (r *R) Cap(what string) {
	r.mu.Lock()
	defer r.mu.Unlock()
	for _, c := range r.Caps {
		if c == what {
			return
		}
	}
	r.Caps = append(r.Caps, what)
}

func (r *R) Add(name string, n int64) {
	r.mu.Lock()
	r.Counters[name] += n
	r.mu.Unlock()
}

func (r *R) SetMax(name string, n int64) {
	r.mu.Lock()
	if n > r.Max[name] {
		r.Max[name] = n
	}
	r.mu.Unlock()
}

func (r *R) Note(name string, v any) {
	r.mu.Lock()
	r.Notes[name] = v
	r.mu.Unlock()
}

func (r *R) Assumption(s string) {
	r.mu.Lock()
	defer r.mu.Unlock()
	for _, a := range r.Assume {
		if a == s {
			return
		}
	}
	r.Assume = append(r.Assume, s)
}

// Sample keeps the first few cases written out.
func (r *R) Sample(x any) {
	r.mu.Lock()
	if len(r.samples) < r.maxSamples {
		r.samples = append(r.samples, x)
	}
	r.mu.Unlock()
}

func (r *R) WantSample() bool {
	r.mu.Lock()
	defer r.mu.Unlock()
	return len(r.samples) < r.maxSamples
}

// Distinct counts distinct keys per class (by 64-bit hash).
func (r *R) Distinct(class, key string) bool {
	h := fnv.New64a()
	h.Write([]byte(key))
	v := h.Sum64()
	r.mu.Lock()
	defer r.mu.Unlock()
	m := r.distinct[class]
	if m == nil {
		m = map[uint64]struct{}{}
		r.distinct[class] = m
	}
	if _, ok := m[v]; ok {
		return false
	}
	m[v] = struct{}{}
	return true
}

// ExportSet makes the driver union this class across shards by hash (instead of adding the
// per-shard counts); use it for classes that are not partitioned by shard, e.g. states.
func (r *R) ExportSet(class string) {
	r.mu.Lock()
	if r.export == nil {
		r.export = map[string]bool{}
	}
	r.export[class] = true
	r.mu.Unlock()
}

// AddDistinct counts n cases that are distinct by construction (enumerated without repetition
// and partitioned over the shards), without storing them.
func (r *R) AddDistinct(class string, n int64) {
	r.mu.Lock()
	if r.byConstruction == nil {
		r.byConstruction = map[string]int64{}
	}
	r.byConstruction[class] += n
	r.mu.Unlock()
}

func (r *R) DistinctCount(class string) int {
	r.mu.Lock()
	defer r.mu.Unlock()
	return len(r.distinct[class])
}

// Violation records an oracle failure. key identifies the *kind* of failure
// (stable across inputs that hit the same defect); the first replay per key is kept.
func (r *R) Violation(key, msg string, replay any) {
	r.mu.Lock()
	defer r.mu.Unlock()
	if v, ok := r.viol[key]; ok {
		v.Count++
		return
	}
	if len(r.viol) >= 200 {
		return
	}
	r.viol[key] = &Violation{Key: key, Msg: msg, Replay: replay, Count: 1}
}

func (r *R) NViolations() int {
	r.mu.Lock()
	defer r.mu.Unlock()
	return len(r.viol)
}

type out struct {
	ID         string              `json:"id"`
	Level      string              `json:"level"`
	Rule       string              `json:"rule"`
	Counters   map[string]int64    `json:"counters"`
	Max        map[string]int64    `json:"max"`
	Distinct   map[string]int      `json:"distinct"`
	Sets       map[string][]uint64 `json:"sets,omitempty"`
	Samples    []any               `json:"samples"`
	Violations []*Violation        `json:"violations"`
	Assume     []string            `json:"assumptions"`
	Caps       []string            `json:"caps"`
	Notes      map[string]any      `json:"notes"`
	WallS      float64             `json:"wall_s"`
}

func (r *R) Write() {
	r.mu.Lock()
	defer r.mu.Unlock()
	o := out{ID: r.ID, Level: r.Level, Rule: r.Rule, Counters: r.Counters, Max: r.Max,
		Distinct: map[string]int{}, Samples: r.samples, Assume: r.Assume, Caps: r.Caps,
		Notes: r.Notes, WallS: time.Since(r.start).Seconds()}
	for k, m := range r.distinct {
		if r.export[k] {
			if o.Sets == nil {
				o.Sets = map[string][]uint64{}
			}
			l := make([]uint64, 0, len(m))
			for h := range m {
				l = append(l, h)
			}
			o.Sets[k] = l
			continue
		}
		o.Distinct[k] = len(m)
	}
	for k, n := range r.byConstruction {
		o.Distinct[k] += int(n)
	}
	keys := make([]string, 0, len(r.viol))
	for k := range r.viol {
		keys = append(keys, k)
	}
	sort.Strings(keys)
	for _, k := range keys {
		o.Violations = append(o.Violations, r.viol[k])
	}
	b, err := json.MarshalIndent(o, "", " ")
	if err != nil {
		// a replay value that cannot be marshalled must not hide the violation
		for _, v := range o.Violations {
			v.Replay = fmt.Sprintf("%+v", v.Replay)
		}
		o.Samples = nil
		b, _ = json.MarshalIndent(o, "", " ")
	}
	p := os.Getenv("VERIF_OUT")
	if p == "" {
		os.Stdout.Write(b)
		return
	}
	if err := os.WriteFile(p+".tmp", b, 0o644); err != nil {
		panic(err)
	}
	if err := os.Rename(p+".tmp", p); err != nil {
		panic(err)
	}
}

// Current records the case about to be executed in $VERIF_OUT.current, so that the driver can turn a
// crash of the whole worker process (a panic in a goroutine of the code under test, a fatal error)
// into a replayable violation. Use only where cases are coarse enough for a file write per case.
func Current(c any) {
	p := os.Getenv("VERIF_OUT")
	if p == "" {
		return
	}
	beat()
	b, err := json.Marshal(c)
	if err != nil {
		return
	}
	os.WriteFile(p+".current", b, 0o644)
}

// Short renders a value compactly for messages.
func Short(v any) string {
	b, err := json.Marshal(v)
	if err != nil {
		return fmt.Sprintf("%+v", v)
	}
	s := string(b)
	if len(s) > 600 {
		s = s[:600] + "…"
	}
	return strings.ReplaceAll(s, "\n", " ")
}

// ---------------------------------------------------------------- stall watchdog

var (
	lastBeat  atomic.Int64
	watchOnce sync.Once
)

// beat marks progress (called from Current). The first call starts a watchdog goroutine: if no case starts for
// StallSeconds of REAL time the process cannot be making progress (typically a goroutine of the code under test
// blocked on a mutex inside a bubble, which freezes virtual time for good); the watchdog then prints
// "VERIF-STALL" and exits with status 3 so that the driver can report the case in flight. The limit is two
// orders of magnitude above the slowest case of any harness that uses Current.
func beat() {
	lastBeat.Store(time.Now().UnixNano())
	watchOnce.Do(func() {
		if v, err := strconv.Atoi(os.Getenv("VERIF_STALL_S")); err == nil && v > 0 {
			StallSeconds = time.Duration(v)
		}
		go func() {
			for {
				time.Sleep(5 * time.Second)
				if unwatched.Load() {
					continue
				}
				if time.Since(time.Unix(0, lastBeat.Load())) > StallSeconds*time.Second {
					fmt.Fprintln(os.Stderr, "VERIF-STALL: no case finished for", StallSeconds, "seconds of real time")
					os.Exit(3)
				}
			}
		}()
	})
}

var unwatched atomic.Bool

// Unwatch switches the watchdog off for the rest of the process: for a phase that does not report cases through
// Current and has its own termination guarantee (the controlled scheduler's step limit and deadline).
func Unwatch() { unwatched.Store(true) }

// StallSeconds is the real-time no-progress limit of the watchdog.
var StallSeconds time.Duration = 180
