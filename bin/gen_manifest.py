#!/usr/bin/env python3
"""Regenerates MANIFEST.json from bin/checks.py + bin/manifest_meta.py (keeps it valid at all times)."""
import json, os, sys
VERIF = os.path.dirname(os.path.dirname(os.path.abspath(__file__)))
sys.path.insert(0, os.path.join(VERIF, "bin"))
from checks import CHECKS
from manifest_meta import META, NOT_APPLICABLE, ENGINES, NOTES

props = [json.loads(l)["id"] for l in open(os.path.join(VERIF, "properties.jsonl"))]
checks = []
for cid in sorted(CHECKS):
    m = META[cid]
    checks.append({
        "property_id": cid,
        "quick_cmd": "bin/check %s quick" % cid,
        "thorough_cmd": "bin/check %s thorough" % cid,
        "evidence_file": "/verif/evidence/%s.json" % cid,
        "replay_cmd_template": "bin/check %s --replay {path}" % cid,
        "engine": m["engine"],
        "level_claimed": {"category": CHECKS[cid]["level"], "text": m["level_text"], "design_ref": m["design_ref"]},
        "level_note": m["level_note"],
        "technique": m["technique"],
    })
na = []
for p in props:
    if p not in CHECKS:
        na.append({"property_id": p, "reason": NOT_APPLICABLE.get(p, "check not built yet in this round; design in DESIGN.md section 3")})
man = {
    "version": 1,
    "setup_cmd": "bin/check --setup",
    "hooks": {
        "guard": "verif",
        "enable": "no source hooks: harness files and instrumented copies are injected at build time with `go test -overlay` (generated from /repo's current tree) and `-modfile` (pure-Go libflux stand-in); /repo is never modified by a check",
        "baseline_off_cmd": "cd /repo && GOFLAGS=-mod=mod go test -vet=off -count=1 ./tick/... ./auth/... ./alert/... ./clock/... ./timer/... ./waiter/... ./udf/agent/... ./services/bigpanda/... ./services/config/override/... ./services/httppost/...",
        "source_commits": [],
        "add_only": True,
    },
    "engines": ENGINES,
    "checks": checks,
    "notes": NOTES,
    "not_applicable": na,
}
json.dump(man, open(os.path.join(VERIF, "MANIFEST.json"), "w"), indent=1)
print("MANIFEST.json: %d checks, %d not_applicable" % (len(checks), len(na)))
