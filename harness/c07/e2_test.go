package c07

import (
	"fmt"
	"strings"
	"testing"
	"time"

	"github.com/influxdata/kapacitor"
	"github.com/influxdata/kapacitor/influxdb"
	"github.com/influxdata/kapacitor/zz_verif/kit"
	"github.com/influxdata/kapacitor/zz_verif/rep"
)

// Part B (no controlled scheduler, one message in flight): tasks in a state the schedule exploration does not
// produce - a node that has already failed, a handler with a backlog - are stopped; when StopTask returns the
// task has handed over what it accepted and nothing of it keeps running.

type StopCase struct {
	Name   string
	Script string
	N      int           // points written before the stop
	Delay  time.Duration // latency of the exec handler per event
	Events int           // events the exec handler must have been handed when StopTask returns (-1: not judged)
}

func stopCases() []StopCase {
	return []StopCase{
		{Name: "failed-node-before-stats-sink", N: 3, Events: -1,
			Script: "var src = stream|from().measurement('m')\nsrc|alert().id('{{ .Bogus }}').crit(lambda: TRUE).exec('cmd')\nsrc|stats(1s)|influxDBOut().database('o')\nsrc|log().prefix('S')"},
		{Name: "failed-node-before-window", N: 3, Events: -1,
			Script: "var src = stream|from().measurement('m')\nsrc|alert().id('{{ .Bogus }}').crit(lambda: TRUE).exec('cmd')\nsrc|window().period(10s).every(1s)|count('v')|influxDBOut().database('o')"},
		{Name: "topic-and-slow-inline-handler", N: 5, Delay: time.Second, Events: 5,
			Script: "stream|from().measurement('m')|alert().crit(lambda: TRUE).topic('nt').exec('cmd')"},
		{Name: "slow-inline-handler", N: 5, Delay: time.Second, Events: 5,
			Script: "stream|from().measurement('m')|alert().crit(lambda: TRUE).exec('cmd')"},
		{Name: "topic-only", N: 5, Events: -1,
			Script: "stream|from().measurement('m')|alert().crit(lambda: TRUE).topic('nt')"},
	}
}

func runStopCase(t *testing.T, c StopCase) []string {
	var probs []string
	atStop, later := 0, 0
	var startErr string
	leak, pan := kit.Bubble(t, func() {
		cmd := &kit.FakeCommander{Delay: c.Delay}
		env, err := kit.NewAlertEnv("c07b", kit.AlertOpts{Commander: cmd})
		if err != nil {
			panic(err)
		}
		env.TM.InfluxDBService = &kit.FakeInflux{}
		if _, err := env.StartStream("t", c.Script); err != nil {
			startErr = err.Error()
			env.Shutdown(true)
			return
		}
		kit.Wait()
		for i := 0; i < c.N; i++ {
			env.Write("db", "rp", kit.MkPoint("m", map[string]string{"h": "a"}, map[string]any{"v": int64(i)}, kit.T0.Add(time.Duration(i+1)*time.Second)))
			kit.Wait()
		}
		env.TM.StopTask("t")
		atStop = len(cmd.Copy())
		kit.Wait()
		// the same task again (disable/enable): nothing of the first incarnation may still be delivering
		time.Sleep(30 * time.Second)
		kit.Wait()
		later = len(cmd.Copy())
		env.Shutdown(true)
		kit.Wait()
	})
	if pan != nil {
		return []string{"panic: " + rep.Short(fmt.Sprint(pan))}
	}
	if startErr != "" {
		return []string{"rejected: " + startErr}
	}
	if strings.HasPrefix(leak, "hang:") {
		probs = append(probs, "still-running: something of the task kept running (virtual time never came to rest) after StopTask and TaskMaster.Close: "+rep.Short(leak))
	} else if leak != "" {
		probs = append(probs, "goroutines-left: "+rep.Short(leak))
	}
	if c.Events >= 0 && atStop != c.Events {
		probs = append(probs, fmt.Sprintf("events-not-handed-over-at-stop: %d of %d events had been handed to the exec handler when StopTask returned (%d 30s later)", atStop, c.Events, later))
	}
	if c.Events >= 0 && later != atStop {
		probs = append(probs, fmt.Sprintf("delivery-after-stop: %d events were handed over after StopTask had returned", later-atStop))
	}
	return probs
}

type StopReplay struct {
	Stop  *StopCase
	Batch string
}

func stopPart(t *testing.T, r *rep.R) {
	for name, script := range batchStopScripts {
		r.Add("evaluations", 1)
		r.Add("stop_cases", 1)
		if p := runBatchStop(t, script); p != "" {
			r.Violation(strings.SplitN(p, ":", 2)[0]+":"+name, name+" ("+script+"): "+p, StopReplay{Batch: name})
		}
	}
	for _, c := range stopCases() {
		c := c
		r.Add("evaluations", 1)
		r.Add("stop_cases", 1)
		for _, p := range runStopCase(t, c) {
			kind := strings.SplitN(p, ":", 2)[0]
			r.Violation(kind+":"+c.Name, c.Name+" ("+strings.ReplaceAll(c.Script, "\n", " ; ")+"): "+p, StopReplay{Stop: &c})
		}
	}
}

// batch task whose query is slower than its schedule, stopped while a query is in flight and the next tick is
// already due: StopTask must return (ten stops at different phases; the hand-over between the ticker's goroutine
// and the query loop is a select, so one stop alone may take either branch)
func runBatchStop(t *testing.T, script string) string {
	stops := 0
	leak, pan := kit.Bubble(t, func() {
		env, err := kit.NewEnv("c07c")
		if err != nil {
			panic(err)
		}
		fi := &kit.FakeInflux{}
		fi.QueryFunc = func(q influxdb.Query) (*influxdb.Response, error) {
			time.Sleep(3 * time.Second)
			return &influxdb.Response{}, nil
		}
		env.TM.InfluxDBService = fi
		for trial := 0; trial < 10; trial++ {
			et, err := env.Start("b", script, kapacitor.BatchTask, kit.DBRP)
			if err != nil {
				panic(err)
			}
			if err := et.StartBatching(); err != nil {
				panic(err)
			}
			time.Sleep(1500*time.Millisecond + time.Duration(trial)*370*time.Millisecond)
			env.TM.StopTask("b")
			stops++
			kit.Wait()
		}
		env.TM.Close()
		kit.Wait()
	})
	if pan != nil {
		return "panic: " + rep.Short(fmt.Sprint(pan))
	}
	if stops != 10 {
		return fmt.Sprintf("stop-never-returned: StopTask #%d of a batch task with a query in flight and a tick pending did not return (%s)", stops+1, rep.Short(leak))
	}
	if leak != "" {
		return "goroutines-left: " + rep.Short(leak)
	}
	return ""
}

var batchStopScripts = map[string]string{
	"batch-align-slow-query": "batch|query('SELECT v FROM \"db\".\"rp\".\"m\"').period(1s).every(1s).align()|log().prefix('S')",
	"batch-cron-slow-query":  "batch|query('SELECT v FROM \"db\".\"rp\".\"m\"').period(1s).cron('* * * * * * *')|log().prefix('S')",
	"batch-every-slow-query": "batch|query('SELECT v FROM \"db\".\"rp\".\"m\"').period(1s).every(1s)|log().prefix('S')",
}
