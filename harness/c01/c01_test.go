package c01

import (
	"fmt"
	"strconv"
	"strings"
	"testing"
	"time"

	"github.com/influxdata/kapacitor/alert"
	"github.com/influxdata/kapacitor/zz_verif/kit"
	"github.com/influxdata/kapacitor/zz_verif/rep"
)

// ---------------------------------------------------------------- configuration space

type Config struct {
	Info, Warn, Crit bool // which levels are defined
	Resets           bool // reset expressions on every defined level
	Thresholds       bool // documented threshold family instead of independent bits
	SCO              int  // 0 off, 1 stateChangesOnly(), 2 stateChangesOnly(2500ms)
	NoRec            bool
	Batch            int  // 0 stream, k>0: |window().periodCount(k).everyCount(k) before alert
	All              bool // .all() (batch only)
	Flap             bool // .flapping(0.25,0.5).history(4)
	FlapAlt          bool // with Flap: .flapping(0.3,0.7).history(6) instead
	History          int  // .history(n) without flapping (0 = default 21)
}

const scoInterval = 2500 * time.Millisecond

func (c Config) script() string {
	var sb strings.Builder
	sb.WriteString("stream|from().measurement('m').groupBy('g')")
	if c.Batch > 0 {
		fmt.Fprintf(&sb, "|window().periodCount(%d).everyCount(%d)", c.Batch, c.Batch)
	}
	sb.WriteString("|alert().topic('T').levelField('lvl').idField('aid').durationField('dur')")
	if c.Thresholds {
		if c.Info {
			sb.WriteString(".info(lambda: \"v\" > 60)")
			if c.Resets {
				sb.WriteString(".infoReset(lambda: \"v\" < 50)")
			}
		}
		if c.Warn {
			sb.WriteString(".warn(lambda: \"v\" > 70)")
			if c.Resets {
				sb.WriteString(".warnReset(lambda: \"v\" < 60)")
			}
		}
		if c.Crit {
			sb.WriteString(".crit(lambda: \"v\" > 80)")
			if c.Resets {
				sb.WriteString(".critReset(lambda: \"v\" < 70)")
			}
		}
	} else {
		if c.Info {
			sb.WriteString(".info(lambda: \"i\" == 1)")
			if c.Resets {
				sb.WriteString(".infoReset(lambda: \"ri\" == 1)")
			}
		}
		if c.Warn {
			sb.WriteString(".warn(lambda: \"w\" == 1)")
			if c.Resets {
				sb.WriteString(".warnReset(lambda: \"rw\" == 1)")
			}
		}
		if c.Crit {
			sb.WriteString(".crit(lambda: \"c\" == 1)")
			if c.Resets {
				sb.WriteString(".critReset(lambda: \"rc\" == 1)")
			}
		}
	}
	switch c.SCO {
	case 1:
		sb.WriteString(".stateChangesOnly()")
	case 2:
		sb.WriteString(".stateChangesOnly(2500ms)")
	}
	if c.NoRec {
		sb.WriteString(".noRecoveries()")
	}
	if c.All {
		sb.WriteString(".all()")
	}
	if c.Flap && c.FlapAlt {
		sb.WriteString(".flapping(0.3, 0.7).history(6)")
	} else if c.Flap {
		sb.WriteString(".flapping(0.25, 0.5).history(4)")
	}
	if c.History > 0 {
		fmt.Fprintf(&sb, ".history(%d)", c.History)
	}
	sb.WriteString("|log().prefix('A')")
	return sb.String()
}

// Sym is one input point in abstract form.
type Sym struct {
	I, W, C    bool // level conditions that hold (bits family)
	RCur, ROth bool // reset condition of the current level / of the other levels holds
	V          int  // value (threshold family)
	Gap        bool // 3s since the previous point instead of 1s
	CMiss      bool // the point lacks the field the critical condition reads: that condition cannot be evaluated
}

func (c Config) alphabet() []Sym {
	var syms []Sym
	if c.Thresholds {
		for _, v := range []int{45, 55, 65, 75, 85} {
			syms = append(syms, Sym{V: v})
		}
	} else {
		bs := []bool{false, true}
		for _, i := range bs {
			if i && !c.Info {
				continue
			}
			for _, w := range bs {
				if w && !c.Warn {
					continue
				}
				for _, cr := range bs {
					if cr && !c.Crit {
						continue
					}
					if c.Resets {
						for _, rc := range bs {
							for _, ro := range bs {
								syms = append(syms, Sym{I: i, W: w, C: cr, RCur: rc, ROth: ro})
							}
						}
					} else {
						syms = append(syms, Sym{I: i, W: w, C: cr, RCur: true, ROth: true})
					}
				}
			}
		}
	}
	if !c.Thresholds && !c.Resets && c.Crit && (c.Warn || c.Info) {
		// points on which the highest severity cannot be evaluated while a lower one holds (or not)
		for _, i := range []bool{false, true} {
			for _, w := range []bool{false, true} {
				if (i && !c.Info) || (w && !c.Warn) {
					continue
				}
				syms = append(syms, Sym{I: i, W: w, CMiss: true, RCur: true, ROth: true})
			}
		}
	}
	if c.SCO == 2 {
		n := len(syms)
		for k := 0; k < n; k++ {
			s := syms[k]
			s.Gap = true
			syms = append(syms, s)
		}
	}
	return syms
}

// ---------------------------------------------------------------- reference model

type concrete struct {
	fields map[string]any
	cond   [4]bool // cond[level]
	reset  [4]bool
}

func (c Config) concretize(s Sym, cur alert.Level) concrete {
	var r concrete
	if c.Thresholds {
		v := float64(s.V)
		r.fields = map[string]any{"v": v}
		r.cond[alert.Info] = c.Info && v > 60
		r.cond[alert.Warning] = c.Warn && v > 70
		r.cond[alert.Critical] = c.Crit && v > 80
		r.reset[alert.Info] = v < 50
		r.reset[alert.Warning] = v < 60
		r.reset[alert.Critical] = v < 70
		return r
	}
	b := func(x bool) int64 {
		if x {
			return 1
		}
		return 0
	}
	r.cond[alert.Info], r.cond[alert.Warning], r.cond[alert.Critical] = s.I, s.W, s.C
	for l := alert.Info; l <= alert.Critical; l++ {
		if l == cur {
			r.reset[l] = s.RCur
		} else {
			r.reset[l] = s.ROth
		}
	}
	r.fields = map[string]any{"i": b(s.I), "w": b(s.W), "c": b(s.C),
		"ri": b(r.reset[alert.Info]), "rw": b(r.reset[alert.Warning]), "rc": b(r.reset[alert.Critical])}
	if s.CMiss {
		delete(r.fields, "c")
		r.cond[alert.Critical] = false
	}
	return r
}

func (c Config) defined(l alert.Level) bool {
	switch l {
	case alert.Info:
		return c.Info
	case alert.Warning:
		return c.Warn
	case alert.Critical:
		return c.Crit
	}
	return false
}

// level: highest severity whose condition holds, held back by the current level's reset.
func (c Config) level(cur alert.Level, p concrete) alert.Level {
	m := alert.OK
	for l := alert.Critical; l > alert.OK; l-- {
		if c.defined(l) && p.cond[l] {
			m = l
			break
		}
	}
	if m >= cur {
		return m
	}
	if c.Resets && c.defined(cur) && !p.reset[cur] {
		return cur
	}
	return m
}

type model struct {
	cfg       Config
	cur       alert.Level
	firstTrig int64
	lastTrig  int64
	hasLast   bool
	lastEvLvl alert.Level // level of the last event handed to the topic
	hist      []alert.Level
	// flapping (configuration .flapping(0.25, 0.5).history(4)): the documented rule is a hysteresis on the percentage
	// of state changes in the history: above high -> flapping, below low -> not flapping, in between unchanged
	flapping bool
	ring     []alert.Level
	ridx     int
}

func (c Config) flapParams() (hist int, low, high float64) {
	if c.FlapAlt {
		return 6, 0.3, 0.7
	}
	return 4, 0.25, 0.5
}

// flapPercent: the weighted percentage of state changes in the history: the history holds l levels, hence l-1
// possible state changes between consecutive entries; the oldest change weighs 0.8, the newest 1.2 ("the newest state
// change is weighted 1.5 times more than the oldest"), equal steps in between; normalised by the number of possible
// changes (documentation of flapping(): "the number state changes over the total possible number of state changes").
func (m *model) flapPercent() float64 {
	l := len(m.ring)
	changes, weight := 0.0, 1.2/1.5
	step := (1.2 - weight) / float64(l-1)
	for j := 0; j < l-1; j++ {
		older, newer := m.ring[(m.ridx+1+j)%l], m.ring[(m.ridx+2+j)%l] // ridx+1 is the oldest entry
		if older != newer {
			changes += weight
		}
		weight += step
	}
	return changes / float64(l-1)
}

type expect struct {
	level alert.Level
	emit  bool
	t     int64
	dur   int64
	prev  alert.Level
}

// step consumes the determined level l for an event time t.
func (m *model) step(l alert.Level, t int64) expect {
	c := m.cfg
	changed := l != m.cur
	expired := !changed && c.SCO == 2 && (!m.hasLast || t-m.lastTrig >= int64(scoInterval))
	prev := m.cur
	m.cur = l
	m.hist = append(m.hist, l)
	e := expect{level: l, t: t}
	if c.Flap {
		if changed && prev == alert.OK {
			m.firstTrig = t // the ID left OK, whether or not an event goes out
		}
		hl, low, high := c.flapParams()
		if m.ring == nil {
			m.ring = make([]alert.Level, hl)
		} else {
			m.ring = append([]alert.Level(nil), m.ring...) // models are copied by value during the search
		}
		m.ridx = (m.ridx + 1) % len(m.ring)
		m.ring[m.ridx] = l
		switch p := m.flapPercent(); {
		case m.flapping && p < low:
			m.flapping = false
		case !m.flapping && p > high:
			m.flapping = true
		}
		// while flapping nothing goes out; a batch alert still reports the recovery
		if m.flapping && !(c.Batch > 0 && changed && l == alert.OK) {
			return e
		}
	}
	if c.SCO > 0 && !changed && !expired {
		return e
	}
	if l != alert.OK || changed {
		m.lastTrig = t
		m.hasLast = true
		if prev == alert.OK {
			m.firstTrig = t
		}
		if c.NoRec && l == alert.OK {
			return e
		}
		e.emit = true
		e.dur = t - m.firstTrig
		e.prev = m.lastEvLvl
		m.lastEvLvl = l
	}
	return e
}

func (m *model) absState(t int64) string {
	since := "-"
	if m.cfg.SCO == 2 && m.hasLast {
		if t-m.lastTrig >= int64(scoInterval) {
			since = "exp"
		} else {
			since = strconv.FormatInt((t-m.lastTrig)/1e9, 10)
		}
	}
	h := ""
	if m.cfg.Flap {
		n := len(m.hist)
		hl, _, _ := m.cfg.flapParams()
		if n > hl {
			h = fmt.Sprint(m.hist[n-hl:])
		} else {
			h = fmt.Sprint(m.hist)
		}
	}
	if m.cfg.Flap {
		h += fmt.Sprint(m.flapping)
	}
	return fmt.Sprintf("%d|%s|%s|%d", m.cur, since, h, m.lastEvLvl)
}

// reachable enumerates, in the reference model alone, every (abstract state, input) pair reachable
// from the initial state with the given alphabet and input arity (1 for stream, k for batches).
func reachable(cfg Config, syms []Sym, r *rep.R) []Case {
	type node struct {
		m    model
		t    int64
		path []Sym
	}
	var cases []Case
	per := 1
	if cfg.Batch > 0 {
		per = cfg.Batch
	}
	start := node{m: model{cfg: cfg}, t: kit.T0.UnixNano()}
	seen := map[string]bool{start.m.absState(start.t): true}
	frontier := []node{start}
	// all inputs of one step: per-tuples of symbols
	var tuples [][]Sym
	var rec func(pre []Sym)
	rec = func(pre []Sym) {
		if len(pre) == per {
			tuples = append(tuples, append([]Sym(nil), pre...))
			return
		}
		for _, s := range syms {
			rec(append(pre, s))
		}
	}
	rec(nil)
	for len(frontier) > 0 {
		var next []node
		for _, n := range frontier {
			for _, tu := range tuples {
				m := n.m
				m.hist = append([]alert.Level(nil), n.m.hist...)
				t := n.t
				cur := m.cur
				var lv []alert.Level
				var ts []int64
				st := m.absState(t)
				for j, s := range tu {
					if j == 0 {
						if r.Distinct("model_reachable_trans", fmt.Sprintf("%+v|%s|%+v", cfg, st, tu)) {
							cases = append(cases, Case{Cfg: cfg, Syms: append(append([]Sym(nil), n.path...), tu...)})
						}
					}
					cc := cfg.concretize(s, cur)
					if s.Gap {
						t += int64(3 * time.Second)
					} else {
						t += int64(time.Second)
					}
					lv = append(lv, cfg.level(cur, cc))
					ts = append(ts, t)
				}
				l, et := batchLevel(cfg, lv, ts)
				m.step(l, et)
				k := m.absState(t)
				if !seen[k] {
					seen[k] = true
					next = append(next, node{m, t, append(append([]Sym(nil), n.path...), tu...)})
				}
			}
		}
		frontier = next
	}
	return cases
}

func batchLevel(cfg Config, lv []alert.Level, ts []int64) (alert.Level, int64) {
	l, et := lv[0], ts[0]
	if cfg.Batch > 0 {
		hi, lo, hiT := alert.OK, alert.Critical, ts[0]
		for j := range lv {
			if lv[j] < lo {
				lo = lv[j]
			}
			if lv[j] > hi || j == 0 {
				hi = lv[j]
				hiT = ts[j]
			}
		}
		l, et = hi, hiT
		if cfg.All {
			l = lo
		}
		if cfg.All || l == alert.OK {
			et = ts[len(ts)-1] // batch end time (count window: time of last point)
		}
	}
	return l, et
}

// ---------------------------------------------------------------- one case = one group / alert ID

type Case struct {
	Cfg  Config
	Syms []Sym
}

type gstate struct {
	c      Case
	m      model
	t      int64 // time of the last point written
	pos    int
	probs  []problem
	evs    []kit.Ev
	fwdP   []kit.Pt
	fwdB   []kit.Bt
	nEmit  int
	levels map[alert.Level]bool
	recov  bool
	leftOK int64
}

type problem struct{ kind, msg string }

func (g *gstate) fail(kind, f string, a ...any) {
	if len(g.probs) < 4 {
		g.probs = append(g.probs, problem{kind, fmt.Sprintf(f, a...)})
	}
}

// flapQuiet: the last `history` levels (incl. the new one) are all equal, so no state change is in the
// flapping history and flapping must be off.
func flapQuiet(hist []alert.Level) bool {
	if len(hist) < 4 {
		// the initial history is all OK
		for _, l := range hist {
			if l != alert.OK {
				return false
			}
		}
		return true
	}
	n := len(hist)
	for _, l := range hist[n-4:] {
		if l != hist[n-1] {
			return false
		}
	}
	return true
}

func runChunk(t *testing.T, cfg Config, cases []Case, r *rep.R) ([]*gstate, error) {
	gs := make([]*gstate, len(cases))
	for i, c := range cases {
		gs[i] = &gstate{c: c, m: model{cfg: cfg}, t: kit.T0.UnixNano(), levels: map[alert.Level]bool{}}
	}
	var runErr error
	leak, pan := kit.Bubble(t, func() {
		env, err := kit.NewAlertEnv("c01", kit.AlertOpts{})
		if err != nil {
			runErr = err
			return
		}
		h := &kit.RecHandler{Name: "h"}
		h.OnEv = func(e kit.Ev) {
			// id is "m:g=<idx>"
			k := strings.LastIndex(e.ID, "=")
			i, err := strconv.Atoi(e.ID[k+1:])
			if k < 0 || err != nil || i < 0 || i >= len(gs) {
				runErr = fmt.Errorf("event with unexpected id %q", e.ID)
				return
			}
			gs[i].evs = append(gs[i].evs, e)
		}
		env.Alert.RegisterAnonHandler("T", h)
		env.Diag.OnPoint = func(prefix string, p kit.Pt) {
			if i, err := strconv.Atoi(p.Tags["g"]); err == nil && i >= 0 && i < len(gs) {
				gs[i].fwdP = append(gs[i].fwdP, p)
			}
		}
		env.Diag.OnBatch = func(prefix string, b kit.Bt) {
			if i, err := strconv.Atoi(b.Tags["g"]); err == nil && i >= 0 && i < len(gs) {
				gs[i].fwdB = append(gs[i].fwdB, b)
			}
		}
		if _, err := env.StartStream("t", cfg.script()); err != nil {
			runErr = err
			return
		}
		per := 1
		if cfg.Batch > 0 {
			per = cfg.Batch
		}
		rounds := 0
		for _, c := range cases {
			if n := len(c.Syms) / per; n > rounds {
				rounds = n
			}
		}
		for k := 0; k < rounds; k++ {
			exps := make([]expect, len(gs))
			for i, g := range gs {
				if (k+1)*per > len(g.c.Syms) {
					continue
				}
				cur := g.m.cur
				st := g.m.absState(g.t)
				r.Distinct("states", fmt.Sprintf("%+v|%s", cfg, st))
				r.Distinct("modeltrans", fmt.Sprintf("%+v|%s|%+v", cfg, st, g.c.Syms[k*per:(k+1)*per]))
				var lv []alert.Level
				var ts []int64
				for j := 0; j < per; j++ {
					s := g.c.Syms[k*per+j]
					cc := cfg.concretize(s, cur)
					if s.Gap {
						g.t += int64(3 * time.Second)
					} else {
						g.t += int64(time.Second)
					}
					lv = append(lv, cfg.level(cur, cc))
					ts = append(ts, g.t)
					p := kit.MkPoint("m", map[string]string{"g": strconv.Itoa(i)}, cc.fields, time.Unix(0, g.t).UTC())
					if err := env.Write("db", "rp", p); err != nil {
						runErr = err
						return
					}
				}
				l, et := batchLevel(cfg, lv, ts)
				exps[i] = g.m.step(l, et)
				g.levels[l] = true
			}
			kit.Wait()
			for i, g := range gs {
				if (k+1)*per > len(g.c.Syms) {
					continue
				}
				g.compare(k, exps[i], cfg)
			}
		}
		if err := env.Shutdown(true); err != nil {
			runErr = err
		}
		kit.Wait()
		for _, g := range gs {
			if len(g.evs) > 0 || len(g.fwdP) > 0 || len(g.fwdB) > 0 {
				g.fail("late-event", "events or data appeared at shutdown: %v", g.evs)
			}
		}
		for _, e := range env.Diag.ErrorsCopy() {
			if strings.Contains(e.Msg, "error evaluating expression for level") && strings.Contains(e.Err, `"c" is missing`) {
				continue // the documented reaction to a point on which a level condition cannot be evaluated
			}
			runErr = fmt.Errorf("diagnostic error: %+v", e)
		}
	})
	if pan != nil {
		return gs, fmt.Errorf("panic: %v", pan)
	}
	if leak != "" {
		return gs, fmt.Errorf("goroutine leak: %s", leak)
	}
	return gs, runErr
}

func (g *gstate) compare(k int, e expect, cfg Config) {
	evs, fp, fb := g.evs, g.fwdP, g.fwdB
	// time at which the ID last left OK, from the level sequence alone
	if n := len(g.m.hist); n > 0 && g.m.hist[n-1] != alert.OK && (n == 1 || g.m.hist[n-2] == alert.OK) {
		g.leftOK = e.t
	}
	g.evs, g.fwdP, g.fwdB = nil, nil, nil
	nf := len(fp) + len(fb)
	if len(evs) > 1 || nf > 1 {
		g.fail("multi-event", "step %d: %d events, %d forwarded items for one input", k, len(evs), nf)
		return
	}
	if e.emit != (len(evs) == 1) {
		g.fail("emission", "step %d: handler got %d events, reference emit=%v level=%v (syms %+v)", k, len(evs), e.emit, e.level, g.c.Syms)
		return
	}
	if e.emit != (nf == 1) {
		g.fail("forwarding", "step %d: %d items forwarded downstream, reference emit=%v", k, nf, e.emit)
		return
	}
	if !e.emit {
		return
	}
	g.nEmit++
	ev := evs[0]
	if ev.Level == alert.OK {
		g.recov = true
	}
	if ev.Level != e.level {
		g.fail("level", "step %d: event level %v, reference %v (syms %+v)", k, ev.Level, e.level, g.c.Syms)
	}
	if ev.T != e.t {
		g.fail("time", "step %d: event time %d, reference %d (ms since epoch; syms %+v)", k, ev.T/1e6, e.t/1e6, g.c.Syms)
	}
	if ev.Duration != e.dur {
		g.fail("duration", "step %d: event duration %v, reference %v = time since the ID left OK (syms %+v)", k, time.Duration(ev.Duration), time.Duration(e.dur), g.c.Syms)
	}
	if ev.Prev != e.prev {
		g.fail("previous-level", "step %d: event previous level %v, reference %v", k, ev.Prev, e.prev)
	}
	var fields map[string]any
	if len(fp) == 1 {
		fields = fp[0].Fields
	} else if len(fb) == 1 && len(fb[0].Points) > 0 {
		fields = fb[0].Points[0].Fields
	}
	if fields != nil {
		if fields["lvl"] != e.level.String() {
			g.fail("level-field", "step %d: forwarded level field %v, reference %v", k, fields["lvl"], e.level)
		}
		if d, _ := fields["dur"].(int64); d != e.dur {
			g.fail("duration-field", "step %d: forwarded duration field %v, reference %v", k, fields["dur"], e.dur)
		}
		if fields["aid"] != ev.ID {
			g.fail("id-field", "step %d: forwarded id field %v, event id %v", k, fields["aid"], ev.ID)
		}
	}
}

// ---------------------------------------------------------------- enumeration

func configs(thorough bool) []Config {
	var r []Config
	bs := []bool{false, true}
	type lv struct{ i, w, c bool }
	subsets := []lv{{true, true, true}, {false, false, true}, {false, true, true}, {true, false, true}, {true, true, false}, {true, false, false}, {false, true, false}}
	for _, s := range subsets {
		for _, resets := range bs {
			for sco := 0; sco <= 2; sco++ {
				for _, norec := range bs {
					for _, batch := range []int{0, 2} {
						for _, all := range bs {
							if all && batch == 0 {
								continue
							}
							r = append(r, Config{Info: s.i, Warn: s.w, Crit: s.c, Resets: resets, SCO: sco, NoRec: norec, Batch: batch, All: all})
						}
					}
				}
			}
		}
	}
	// documented threshold family (worked example of pipeline/alert.go)
	for _, resets := range bs {
		for sco := 0; sco <= 2; sco++ {
			for _, norec := range bs {
				for _, batch := range []int{0, 2} {
					r = append(r, Config{Info: true, Warn: true, Crit: true, Resets: resets, Thresholds: true, SCO: sco, NoRec: norec, Batch: batch})
				}
			}
		}
	}
	// small history rings without flapping (the ring index arithmetic is shared by all configurations)
	for _, hist := range []int{2, 3} {
		for sco := 0; sco <= 1; sco++ {
			for _, batch := range []int{0, 2} {
				r = append(r, Config{Info: true, Warn: true, Crit: true, Thresholds: true, SCO: sco, Batch: batch, History: hist})
			}
		}
	}
	// flapping
	for sco := 0; sco <= 1; sco++ {
		for _, batch := range []int{0, 2} {
			r = append(r, Config{Info: true, Warn: true, Crit: true, Thresholds: true, SCO: sco, Batch: batch, Flap: true})
		}
	}
	// a longer history and wider thresholds
	r = append(r, Config{Info: true, Warn: true, Crit: true, Thresholds: true, Flap: true, FlapAlt: true},
		Config{Info: true, Warn: true, Crit: true, Thresholds: true, SCO: 1, Batch: 2, Flap: true, FlapAlt: true})
	return r
}

// seqLen picks the sequence length (in inputs to the alert node) so that the case count per config
// stays within the budget.
func seqLen(nsym int, budget int) int {
	l, n := 1, nsym
	for n*nsym <= budget {
		n *= nsym
		l++
	}
	return l
}

func docExample(r *rep.R, t *testing.T) {
	cfg := Config{Info: true, Warn: true, Crit: true, Resets: true, Thresholds: true}
	vals := []int{61, 73, 64, 85, 62, 56, 47}
	want := []alert.Level{alert.Info, alert.Warning, alert.Warning, alert.Critical, alert.Info, alert.Info, alert.OK}
	cur := alert.OK
	for i, v := range vals {
		l := cfg.level(cur, cfg.concretize(Sym{V: v}, cur))
		if l != want[i] {
			t.Fatalf("reference model disagrees with the documented example at %d: %v want %v", i, l, want[i])
		}
		cur = l
	}
	var c Case
	c.Cfg = cfg
	for _, v := range vals {
		c.Syms = append(c.Syms, Sym{V: v})
	}
	gs, err := runChunk(t, cfg, []Case{c}, r)
	if err != nil {
		r.Violation("run-error", err.Error(), c)
	}
	for _, p := range gs[0].probs {
		r.Violation(key(cfg, p.kind), "documented example: "+p.msg, c)
	}
	r.Add("evaluations", 1)
}

func TestCheck(t *testing.T) {
	defer kit.CleanupTmp()
	r := rep.New("C01", "model_checking",
		"every alert() configuration (defined levels x resets x stateChangesOnly[interval] x noRecoveries x stream/batch x all() ; documented threshold family; flapping) x every sequence of abstract points (which level conditions hold x whether the reset of the current/other levels holds x time gap) up to the length bound; every sequence is one alert ID (group) of a real stream task with a real alert service and a recording handler registered on the alert's topic; after every input the harness waits for quiescence and compares event presence, level, time, duration, previous level and the forwarded level/id/duration fields with a reference state machine written from pipeline/alert.go. states = distinct (configuration, reference state) pairs; modeltrans = distinct (configuration, state, symbol) transitions, all executed on the real code; non-trivial = sequences that produced at least two events including a level change")
	defer r.Write()
	r.ExportSet("states")
	r.ExportSet("modeltrans")
	r.ExportSet("model_reachable_trans")
	r.Assumption("groups/IDs are independent (C06); single-parent pipeline => one execution per input covers all goroutine schedules")
	r.Assumption("stateChangesOnly(interval): the boundary 'exactly interval elapsed' is not enumerated (points are 1s or 3s apart, interval 2.5s) because the documentation says 'more than' and the code uses >=")
	r.Assumption("flapping: while an ID is flapping no event goes out (a batch alert still reports the recovery); flapping follows the documented hysteresis (enter above high, leave below low) on the percentage of state changes between consecutive history entries, the oldest change weighted 0.8, the newest 1.2 (alert.go: 'the newest state change is weighted 1.5 times more than oldest'), normalised by the number of possible changes")
	r.Assumption("inhibitors, message/details templates and restart/restore (C08) are not part of this check")

	if rep.ReplayPath() != "" {
		var c Case
		if err := rep.LoadReplay(&c); err != nil {
			t.Fatal(err)
		}
		gs, err := runChunk(t, c.Cfg, []Case{c}, r)
		if err != nil {
			r.Violation("run-error", err.Error(), c)
		}
		for _, p := range gs[0].probs {
			r.Violation(key(c.Cfg, p.kind), p.msg, c)
		}
		r.Add("evaluations", 1)
		return
	}
	if i, _ := rep.Shard(); i == 0 {
		docExample(r, t)
	}
	budget := 4000
	if rep.Thorough() {
		budget = 70000
	}
	const chunkSize = 256
	chunkNo := 0
	cfgs := configs(rep.Thorough())
	for _, cfg := range cfgs {
		syms := cfg.alphabet()
		skip := false
		b := budget
		if cfg.Flap || cfg.History > 0 {
			b = budget * 20 // 5^7 sequences: the history ring must wrap several times
		}
		L := seqLen(len(syms), b)
		if cfg.Batch > 0 {
			L -= L % cfg.Batch
			if L < 2*cfg.Batch {
				// at least two batches are needed to see a state change; shrink the alphabet instead:
				// the reset condition of levels other than the current one is held true
				var red []Sym
				for _, s := range syms {
					if s.ROth {
						red = append(red, s)
					}
				}
				syms = red
				L = 2 * cfg.Batch
				n := 1
				for i := 0; i < L; i++ {
					n *= len(syms)
				}
				if n > b*4 {
					if i, _ := rep.Shard(); i == 0 {
						r.Add("configs_without_fixed_length_sweep_in_this_tier", 1)
					}
					skip = true
				}
			}
		}
		full := cfg.alphabet()
		runCases := func(cases []Case) {
			gs, err := runChunk(t, cfg, cases, r)
			if err != nil {
				r.Violation("run-error", err.Error()+" | "+cfg.script(), cases[0])
			}
			for _, g := range gs {
				r.Add("evaluations", 1)
				r.Add("transitions", int64(len(g.c.Syms)))
				for _, p := range g.probs {
					r.Violation(key(cfg, p.kind), p.msg+" | "+cfg.script(), g.c)
				}
				if g.nEmit >= 2 && len(g.levels) >= 2 {
					r.Distinct("nontrivial", fmt.Sprintf("%+v", g.c))
				}
				r.Distinct("outcomes", fmt.Sprintf("%+v|%d|%v|%v", cfg, g.nEmit, g.levels, g.recov))
			}
			if r.WantSample() && len(gs) > 0 {
				g := gs[len(gs)/3]
				r.Sample(map[string]any{"script": cfg.script(), "symbols": g.c.Syms, "events": g.nEmit, "final_level": g.m.cur.String()})
			}
		}
		// (1) closure: for every (state, input) transition of the reference model, the shortest
		// input path to the state followed by the input, on the real code
		cl := reachable(cfg, full, r)
		for base := 0; base < len(cl); base += chunkSize {
			mine := rep.Mine(chunkNo)
			chunkNo++
			if !mine {
				continue
			}
			if r.Expired() {
				r.Cap("deadline")
				continue
			}
			end := base + chunkSize
			if end > len(cl) {
				end = len(cl)
			}
			runCases(cl[base:end])
			r.Add("closure_cases", int64(end-base))
		}
		if skip {
			continue
		}
		// (2) every sequence of length L
		total := 1
		for i := 0; i < L; i++ {
			total *= len(syms)
		}
		for base := 0; base < total; base += chunkSize {
			mine := rep.Mine(chunkNo)
			chunkNo++
			if !mine {
				continue
			}
			if r.Expired() {
				r.Cap("deadline")
				continue
			}
			var cases []Case
			for n := base; n < base+chunkSize && n < total; n++ {
				c := Case{Cfg: cfg, Syms: make([]Sym, L)}
				x := n
				for i := L - 1; i >= 0; i-- {
					c.Syms[i] = syms[x%len(syms)]
					x /= len(syms)
				}
				cases = append(cases, c)
			}
			runCases(cases)
		}
	}
	r.Note("configurations", len(cfgs))
}

func key(c Config, kind string) string {
	mode := "stream"
	if c.Batch > 0 {
		mode = "batch"
	}
	if c.Flap {
		mode += "+flap"
	}
	if c.FlapAlt {
		mode += "6"
	}
	return kind + ":" + mode
}
