package c19

import (
	"bufio"
	"bytes"
	"fmt"
	"io"
	"math"
	"sort"
	"strings"
	"testing"
	"time"

	"github.com/influxdata/kapacitor"
	"github.com/influxdata/kapacitor/edge"
	"github.com/influxdata/kapacitor/models"
	"github.com/influxdata/kapacitor/udf/agent"
	"github.com/influxdata/kapacitor/zz_verif/kit"
	"github.com/influxdata/kapacitor/zz_verif/rep"
	"github.com/influxdata/kapacitor/zz_verif/udfkit"
	"google.golang.org/protobuf/proto"
)

type problem struct{ key, msg string }

// ================================================================ part A: framing

// fragReader hands out data in the chunks given by cuts; ReadByte takes one byte of the current chunk.
type fragReader struct {
	data    []byte
	cuts    []int // ascending positions at which a Read must stop
	pos     int
	eofWith bool // the final Read returns its bytes together with io.EOF
}

func (f *fragReader) limit() int {
	for _, c := range f.cuts {
		if c > f.pos {
			return c
		}
	}
	return len(f.data)
}
func (f *fragReader) Read(p []byte) (int, error) {
	if f.pos >= len(f.data) {
		return 0, io.EOF
	}
	n := copy(p, f.data[f.pos:f.limit()])
	f.pos += n
	if f.eofWith && f.pos == len(f.data) {
		return n, io.EOF
	}
	return n, nil
}
func (f *fragReader) ReadByte() (byte, error) {
	if f.pos >= len(f.data) {
		return 0, io.EOF
	}
	b := f.data[f.pos]
	f.pos++
	return b, nil
}

func padPoint(n int) *agent.Point {
	return &agent.Point{Time: 1, Name: "m", Group: "g", Tags: map[string]string{"h": "a"}, FieldsString: map[string]string{"s": strings.Repeat("x", n)}, FieldsInt: map[string]int64{"i": -7}, FieldsDouble: map[string]float64{"f": 2.5}, FieldsBool: map[string]bool{"b": true}}
}

// framingMessages: one message of every kind, and point messages whose encoded size sits on the varint boundaries
func framingMessages() (reqs []*agent.Request, resps []*agent.Response) {
	reqs = append(reqs,
		&agent.Request{},
		&agent.Request{Message: &agent.Request_Info{Info: &agent.InfoRequest{}}},
		&agent.Request{Message: &agent.Request_Init{Init: &agent.InitRequest{TaskID: "t", NodeID: "n", Options: []*agent.Option{{Name: "o", Values: []*agent.OptionValue{{Type: agent.ValueType_INT, Value: &agent.OptionValue_IntValue{IntValue: 5}}}}}}}},
		&agent.Request{Message: &agent.Request_Keepalive{Keepalive: &agent.KeepaliveRequest{Time: math.MaxInt64}}},
		&agent.Request{Message: &agent.Request_Snapshot{Snapshot: &agent.SnapshotRequest{}}},
		&agent.Request{Message: &agent.Request_Restore{Restore: &agent.RestoreRequest{Snapshot: []byte{0, 1, 2, 0, 255}}}},
		&agent.Request{Message: &agent.Request_Begin{Begin: &agent.BeginBatch{Name: "m", Group: "h=a", Tags: map[string]string{"h": "a"}, Size: 2, ByName: true}}},
		&agent.Request{Message: &agent.Request_End{End: &agent.EndBatch{Name: "m", Group: "h=a", Tmax: -1, Tags: map[string]string{"h": "a"}}}},
	)
	want := map[int]bool{127: true, 128: true, 129: true, 16383: true, 16384: true, 16385: true}
	for n := 0; n < 16400 && len(want) > 0; n++ {
		if n > 140 && n < 16300 {
			continue
		}
		m := &agent.Request{Message: &agent.Request_Point{Point: padPoint(n)}}
		b, _ := proto.MarshalOptions{Deterministic: true}.Marshal(m)
		if want[len(b)] {
			delete(want, len(b))
			reqs = append(reqs, m)
		}
	}
	resps = append(resps,
		&agent.Response{},
		&agent.Response{Message: &agent.Response_Keepalive{Keepalive: &agent.KeepaliveResponse{Time: 5}}},
		&agent.Response{Message: &agent.Response_Snapshot{Snapshot: &agent.SnapshotResponse{Snapshot: bytes.Repeat([]byte{0}, 200)}}},
		&agent.Response{Message: &agent.Response_Error{Error: &agent.ErrorResponse{Error: "é\x00"}}},
		&agent.Response{Message: &agent.Response_Point{Point: padPoint(3)}},
		&agent.Response{Message: &agent.Response_Info{Info: &agent.InfoResponse{Wants: agent.EdgeType_BATCH, Provides: agent.EdgeType_STREAM, Options: map[string]*agent.OptionInfo{"o": {ValueTypes: []agent.ValueType{agent.ValueType_STRING}}}}}},
	)
	return
}

func subsetsUpTo2(c []int) [][]int {
	out := [][]int{nil}
	for i := range c {
		out = append(out, []int{c[i]})
		for j := i + 1; j < len(c); j++ {
			out = append(out, []int{c[i], c[j]})
		}
	}
	return out
}

func allCompositions(n int) [][]int {
	var out [][]int
	for mask := 0; mask < 1<<(n-1); mask++ {
		var cuts []int
		for i := 0; i < n-1; i++ {
			if mask&(1<<i) != 0 {
				cuts = append(cuts, i+1)
			}
		}
		out = append(out, cuts)
	}
	return out
}

func framing(r *rep.R) {
	reqs, resps := framingMessages()
	type stream struct {
		msgs []proto.Message
		mk   func() proto.Message
		kind string
	}
	var streams []stream
	for i, a := range reqs {
		streams = append(streams, stream{[]proto.Message{a}, func() proto.Message { return &agent.Request{} }, "request"})
		for j, b := range reqs {
			if (i+j)%3 == 0 || i < 2 || j < 2 {
				streams = append(streams, stream{[]proto.Message{a, b}, func() proto.Message { return &agent.Request{} }, "request"})
			}
		}
	}
	for _, a := range resps {
		for _, b := range resps {
			streams = append(streams, stream{[]proto.Message{a, b, a}, func() proto.Message { return &agent.Response{} }, "response"})
		}
	}
	n := 0
	for si, st := range streams {
		n++
		if !rep.Mine(n) {
			continue
		}
		var buf bytes.Buffer
		var bounds []int
		for _, m := range st.msgs {
			if err := agent.WriteMessage(m, &buf); err != nil {
				r.Violation("framing-write-error", err.Error(), nil)
			}
			bounds = append(bounds, buf.Len())
		}
		data := buf.Bytes()
		var cutSets [][]int
		if len(data) <= 13 && len(data) > 1 {
			cutSets = allCompositions(len(data))
		} else {
			cand := map[int]bool{}
			for i := 1; i <= 8; i++ {
				cand[i] = true
			}
			for _, b := range bounds {
				for d := -3; d <= 3; d++ {
					cand[b+d] = true
				}
			}
			var c []int
			for k := range cand {
				if k > 0 && k < len(data) {
					c = append(c, k)
				}
			}
			sort.Ints(c)
			cutSets = subsetsUpTo2(c)
			for _, step := range []int{1, 2, 3, 7} {
				var cuts []int
				for p := step; p < len(data); p += step {
					cuts = append(cuts, p)
				}
				if len(cuts) < 40000 {
					cutSets = append(cutSets, cuts)
				}
			}
		}
		for _, cuts := range cutSets {
			for _, variant := range []string{"direct", "bufio", "direct+eof"} {
				fr := &fragReader{data: data, cuts: cuts, eofWith: variant == "direct+eof"}
				var rd agent.ByteReadReader = fr
				if variant == "bufio" {
					rd = bufio.NewReader(fr)
				}
				var b []byte
				r.Add("framing_executions", 1)
				r.Add("transitions", int64(len(st.msgs)))
				r.Add("evaluations", 1)
				for k, want := range st.msgs {
					got := st.mk()
					if err := agent.ReadMessage(&b, rd, got); err != nil {
						r.Violation("framing:"+variant, fmt.Sprintf("%s stream %d (%d bytes, messages end at %v) read in chunks cut at %v (%s reader): message %d: ReadMessage failed: %v", st.kind, si, len(data), bounds, short(cuts), variant, k, err), nil)
						break
					}
					if !proto.Equal(got, want) {
						r.Violation("framing-altered:"+variant, fmt.Sprintf("%s stream %d cut at %v: message %d read back as %v, written %v", st.kind, si, short(cuts), k, got, want), nil)
						break
					}
				}
			}
		}
	}
	r.Note("framing_streams", len(streams))
}

func short(c []int) string {
	if len(c) > 12 {
		return fmt.Sprintf("%v...(%d cuts)", c[:12], len(c))
	}
	return fmt.Sprint(c)
}

// ================================================================ part B/C: echo through a real task

type PtSpec struct {
	Fields int // index into fieldSets
	Tags   int
	Time   int
}

var fieldSets = []map[string]any{
	{"i": int64(1)},
	{"f": 2.5},
	{"s": ""},
	{"s": "x y,z=\"q\""},
	{"b": true},
	{"i": int64(math.MinInt64), "f": -1e-300, "s": "é", "b": false, "i2": int64(math.MaxInt64), "f2": math.MaxFloat64},
}
var tagSets = []map[string]string{
	{},
	{"h": "a"},
	{"h": "a", "t": "x,y=z w"},
}
var times = []time.Time{
	time.Unix(0, 1).UTC(),
	kit.T0.Add(time.Second + 7),
	time.Date(2200, 1, 2, 3, 4, 5, 999999999, time.UTC),
	time.Unix(0, -5).UTC(),
}
var groupings = []string{"", ".groupBy('h')", ".groupBy('h').groupByMeasurement()", ".groupBy(*)", ".groupByMeasurement()"}

type Case struct {
	Mode     string // stream | batch
	Grouping int
	Pts      []PtSpec
	Batches  [][]PtSpec // batch mode
	BTags    int        // batch mode: tags of the batch
	ByName   bool
	ZeroHint bool  // batch mode: the BeginBatch size hint is 0 although the batch has points (what where/eval emit)
	Pattern  []int // fragmentation pattern of both byte streams
	SnapAt   int   // request a task snapshot before point #SnapAt (-1 = never)
	SleepAt  int   // let 3s of virtual time pass (keepalives) before point #SleepAt (-1 = never)
	Snapshot []byte
}

func (c Case) script() string {
	if c.Mode == "batch" {
		return "var src = batch|query('SELECT v FROM \"db\".\"rp\".\"m\"').period(100s).every(100s)\nsrc|log().prefix('R')\nsrc@echo()|log().prefix('X')\n"
	}
	return "var src = stream|from().measurement('m')" + groupings[c.Grouping] + "\nsrc|log().prefix('R')\nsrc@echo()|log().prefix('X')\n"
}

func fullPt(p kit.Pt) string {
	return fmt.Sprintf("{%s db=%s rp=%s g=%q dims=%v byName=%v t=%d tags=%s f=%s}", p.Name, p.DB, p.RP, p.Group, p.Dims, p.ByName, p.T.UnixNano(), kit.FmtTags(p.Tags), kit.FmtFields(p.Fields))
}
func fullBt(b kit.Bt) string {
	var sb strings.Builder
	fmt.Fprintf(&sb, "[%s g=%q dims=%v byName=%v tmax=%d tags=%s:", b.Name, b.Group, b.Dims, b.ByName, b.TMax.UnixNano(), kit.FmtTags(b.Tags))
	for _, p := range b.Points {
		fmt.Fprintf(&sb, " (t=%d tags=%s f=%s)", p.T.UnixNano(), kit.FmtTags(p.Tags), kit.FmtFields(p.Fields))
	}
	return sb.String() + "]"
}
func fullItems(its []kit.Item) []string {
	var s []string
	for _, it := range its {
		if it.P != nil {
			s = append(s, fullPt(*it.P))
		} else {
			s = append(s, fullBt(*it.B))
		}
	}
	return s
}

func hint(c Case, n int) int {
	if c.ZeroHint {
		return 0
	}
	return n
}

func describe(c Case) string {
	return fmt.Sprintf("%s%s points %v batches %v (size hint 0: %v) fragmentation %v snapshot-at %d sleep-at %d", c.Mode, groupings[c.Grouping], c.Pts, c.Batches, c.ZeroHint, c.Pattern, c.SnapAt, c.SleepAt)
}

func runEcho(t *testing.T, c Case, r *rep.R) []problem {
	var ps []problem
	cls := c.Mode
	var raw, echoed []string
	var snapGot []byte
	var snapErr, startErr string
	var reqLog []string
	var nodeErrs []string
	snapAsked := false
	leak, pan := kit.Bubble(t, func() {
		env, err := kit.NewEnv("c19")
		if err != nil {
			panic(err)
		}
		h := &udfkit.EchoHandler{Wants: agent.EdgeType_STREAM, State: c.Snapshot}
		if c.Mode == "batch" {
			h.Wants = agent.EdgeType_BATCH
		}
		svc := &udfkit.Service{Wants: h.Wants, Timeout: 2 * time.Second, Pattern: c.Pattern, NewServe: func() func(io.ReadCloser, io.WriteCloser) { return udfkit.ServeEcho(h) }}
		env.TM.UDFService = svc
		tt := kapacitor.StreamTask
		if c.Mode == "batch" {
			tt = kapacitor.BatchTask
		}
		et, err := env.Start("t", c.script(), tt, kit.DBRP)
		if err != nil {
			startErr = err.Error()
			env.TM.Close()
			return
		}
		kit.Wait()
		step := func(i int) {
			if c.SleepAt == i {
				time.Sleep(3 * time.Second)
				kit.Wait()
			}
			if c.SnapAt == i {
				snapAsked = true
				snap, err := et.Snapshot()
				if err != nil {
					snapErr = err.Error()
				} else {
					for _, b := range snap.NodeSnapshots {
						if len(b) > 0 || snapGot == nil {
							snapGot = b
						}
					}
				}
				kit.Wait()
			}
		}
		if c.Mode == "stream" {
			for i, p := range c.Pts {
				step(i)
				if err := env.Write("db", "rp", kit.MkPoint("m", tagSets[p.Tags], fieldSets[p.Fields], times[p.Time])); err != nil {
					startErr = err.Error()
				}
				kit.Wait()
			}
			step(len(c.Pts))
		} else {
			cols := env.TM.BatchCollectors("t")
			for i, b := range c.Batches {
				step(i)
				var bps []edge.BatchPointMessage
				for _, p := range b {
					f := models.Fields{}
					for k, v := range fieldSets[p.Fields] {
						f[k] = v
					}
					tg := models.Tags{}
					for k, v := range tagSets[p.Tags] {
						tg[k] = v
					}
					for k, v := range tagSets[c.BTags] {
						tg[k] = v
					}
					bps = append(bps, edge.NewBatchPointMessage(f, tg, times[p.Time]))
				}
				bt := models.Tags{}
				for k, v := range tagSets[c.BTags] {
					bt[k] = v
				}
				if err := cols[0].CollectBatch(edge.NewBufferedBatchMessage(edge.NewBeginBatchMessage("m", bt, c.ByName, times[(i+1)%len(times)], hint(c, len(bps))), bps, edge.NewEndBatchMessage())); err != nil {
					startErr = err.Error()
				}
				kit.Wait()
			}
			step(len(c.Batches))
			for _, col := range cols {
				col.Close()
			}
			kit.Wait()
		}
		env.TM.StopTask("t")
		kit.Wait()
		env.TM.Close()
		kit.Wait()
		if s := env.Diag.Sink("R"); s != nil {
			raw = fullItems(s.Items)
		}
		if s := env.Diag.Sink("X"); s != nil {
			echoed = fullItems(s.Items)
		}
		reqLog = h.LogCopy()
		for _, e := range env.Diag.ErrorsCopy() {
			if strings.Contains(e.Err, "node aborted") {
				// StopTask aborts the UDF of a stream task; UDFSocket.Close wraps the abort error, so the node
				// reports it instead of swallowing it. Harmless for the data, not judged here.
				continue
			}
			nodeErrs = append(nodeErrs, fmt.Sprintf("%s: %s %s", e.Node, e.Msg, e.Err))
		}
	})
	if r != nil {
		r.Add("evaluations", 1)
		r.Add("echo_executions", 1)
		r.Add("transitions", int64(len(c.Pts)+len(c.Batches)+1))
	}
	if pan != nil {
		return []problem{{"panic:" + cls, describe(c) + ": " + rep.Short(fmt.Sprint(pan))}}
	}
	if startErr != "" {
		return []problem{{"rejected:" + cls, describe(c) + ": " + startErr}}
	}
	if leak != "" {
		ps = append(ps, problem{"leak:" + cls, describe(c) + ": " + rep.Short(leak)})
	}
	if len(nodeErrs) > 0 {
		ps = append(ps, problem{"node-error:" + cls, fmt.Sprintf("%s: %v", describe(c), nodeErrs)})
	}
	if strings.Join(raw, "\n") != strings.Join(echoed, "\n") {
		ps = append(ps, problem{"echo-differs:" + cls, fmt.Sprintf("%s:\n sent   %v\n echoed %v", describe(c), raw, echoed)})
	} else if r != nil && len(raw) > 0 {
		r.AddDistinct("nontrivial", 1)
	}
	want := len(c.Pts)
	if c.Mode == "batch" {
		want = len(c.Batches)
	}
	if len(raw) != want {
		ps = append(ps, problem{"harness-input:" + cls, fmt.Sprintf("%s: %d items reached the task, %d were sent", describe(c), len(raw), want)})
	}
	if snapAsked {
		if snapErr != "" {
			ps = append(ps, problem{"snapshot-error:" + cls, describe(c) + ": " + snapErr})
		} else if !bytes.Equal(snapGot, c.Snapshot) {
			ps = append(ps, problem{"snapshot-bytes:" + cls, fmt.Sprintf("%s: the task snapshot holds %v for the UDF node, the UDF supplied %v", describe(c), snapGot, c.Snapshot)})
		}
		seen := false
		for _, l := range reqLog {
			if l == "snapshot" {
				seen = true
			}
		}
		if !seen {
			ps = append(ps, problem{"snapshot-not-requested:" + cls, describe(c)})
		}
	}
	return ps
}

// ================================================================ restore/snapshot bytes directly on the server

func TestCheck(t *testing.T) {
	r := rep.New("C19", "model_checking",
		"UDF boundary on the real code. (A) framing: every protocol message kind plus point messages whose encoded size is 127/128/129/16383/16384/16385 bytes, written with agent.WriteMessage as streams of 1-3 messages and read back with agent.ReadMessage through a reader that fragments the byte stream: ALL compositions for streams up to 13 bytes, otherwise all sets of up to 2 cut points out of {1..8, every message boundary +-3} plus fixed chunk sizes 1/2/3/7; three reader variants (bare, bufio-wrapped as the daemon does, bare returning the last bytes together with io.EOF). (B) fidelity: a real task src@echo()|log next to src|log, the UDF being kapacitor.UDFSocket + udf.Server talking over in-memory pipes to an in-process agent built on udf/agent that echoes; every point of the alphabet 6 field sets (all four types, empty string, extremes) x 3 tag sets (separators in values) x 4 time stamps (1ns, negative, year 2200) x 5 groupings, and every batch of up to 2 such points x batch tags x byName x size hint (exact / 0), with the byte streams fragmented in 4 patterns: the echoed sink must equal the raw sibling's in name, db, rp, group, dimensions, tags, fields and types, time, batch boundaries and order. (C) message-level interleavings: 3 data items with a task snapshot requested before/after each of them x 3s of virtual time (keepalive round trips, timeout 2s) before/after each of them: data unchanged, snapshot bytes equal the bytes the UDF supplied")
	defer r.Write()
	r.Assumption("goroutine-level races inside udf.Server (select between data and control requests both ready) are not varied: requests are issued one at a time to quiescence")
	r.Assumption("NaN/Inf float fields cannot enter through line protocol and are not in the alphabet")

	if rep.ReplayPath() != "" {
		var c Case
		if err := rep.LoadReplay(&c); err != nil {
			t.Fatal(err)
		}
		if c.Mode == "" {
			framing(r)
			return
		}
		for _, p := range runEcho(t, c, r) {
			r.Violation(p.key, p.msg, c)
		}
		return
	}
	framing(r)

	patterns := [][]int{nil, {1}, {1, 2, 3}, {7}}
	var cases []Case
	// (B) single points, every combination
	for g := range groupings {
		for f := range fieldSets {
			for tg := range tagSets {
				for tm := range times {
					cases = append(cases, Case{Mode: "stream", Grouping: g, Pts: []PtSpec{{f, tg, tm}}, Pattern: patterns[(f+tg+tm+g)%len(patterns)], SnapAt: -1, SleepAt: -1})
				}
			}
		}
	}
	// (B) batches of 0..2 points
	var specs []PtSpec
	for f := range fieldSets {
		for tm := 0; tm < 2; tm++ {
			specs = append(specs, PtSpec{f, (f + tm) % len(tagSets), tm})
		}
	}
	for bt := range tagSets {
		for _, byName := range []bool{false, true} {
			cases = append(cases, Case{Mode: "batch", Batches: [][]PtSpec{{}}, BTags: bt, ByName: byName, SnapAt: -1, SleepAt: -1})
			for i, a := range specs {
				cases = append(cases, Case{Mode: "batch", Batches: [][]PtSpec{{a}}, BTags: bt, ByName: byName, Pattern: patterns[i%len(patterns)], SnapAt: -1, SleepAt: -1})
				for j, b := range specs {
					if !rep.Thorough() && (i+j)%3 != 0 {
						continue
					}
					cases = append(cases, Case{Mode: "batch", Batches: [][]PtSpec{{a, b}, {b}}, BTags: bt, ByName: byName, Pattern: patterns[(i+j)%len(patterns)], SnapAt: -1, SleepAt: -1})
				}
			}
		}
	}
	// (C) interleavings of data with snapshot requests and keepalive round trips
	snaps := [][]byte{nil, {}, {0}, bytes.Repeat([]byte{0xff, 0}, 150)}
	for _, mode := range []string{"stream", "batch"} {
		for snapAt := -1; snapAt <= 3; snapAt++ {
			for sleepAt := -1; sleepAt <= 3; sleepAt++ {
				for si, sn := range snaps {
					c := Case{Mode: mode, Grouping: 1, SnapAt: snapAt, SleepAt: sleepAt, Snapshot: sn, Pattern: patterns[(si+snapAt+sleepAt+2)%len(patterns)], BTags: 1}
					if mode == "stream" {
						c.Pts = []PtSpec{{0, 1, 1}, {5, 2, 1}, {2, 1, 2}}
					} else {
						c.Batches = [][]PtSpec{{{0, 1, 1}}, {{5, 2, 1}, {1, 1, 1}}, {}}
					}
					cases = append(cases, c)
				}
			}
		}
	}
	// every batch case again with a size hint of 0
	for _, c := range append([]Case(nil), cases...) {
		if c.Mode == "batch" {
			c.ZeroHint = true
			cases = append(cases, c)
		}
	}
	r.Note("echo_cases", len(cases))
	for n, c := range cases {
		if !rep.Mine(n) {
			continue
		}
		if r.Expired() {
			r.Cap("deadline")
			break
		}
		rep.Current(c)
		r.Add("states", 1)
		for _, p := range runEcho(t, c, r) {
			r.Violation(p.key, p.msg, c)
		}
		if r.WantSample() && n%499 == 3 {
			r.Sample(map[string]any{"case": describe(c), "script": c.script()})
		}
	}
}
