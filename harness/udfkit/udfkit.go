// Package udfkit connects the real UDF machinery (kapacitor.UDFNode, kapacitor.UDFSocket, udf.Server) to an
// in-process agent over in-memory pipes whose byte streams are fragmented on purpose.
package udfkit

import (
	"io"
	"sync"
	"time"

	"github.com/influxdata/kapacitor"
	"github.com/influxdata/kapacitor/udf"
	"github.com/influxdata/kapacitor/udf/agent"
)

// FragWriter splits every Write into chunks whose sizes cycle through Pattern (a pipe hands a reader at most
// one written chunk per Read, so this fragments the reads on the other side).
type FragWriter struct {
	W       io.WriteCloser
	Pattern []int
	i       int
}

func (f *FragWriter) Write(p []byte) (int, error) {
	if len(f.Pattern) == 0 {
		return f.W.Write(p)
	}
	n := 0
	for len(p) > 0 {
		k := f.Pattern[f.i%len(f.Pattern)]
		f.i++
		if k <= 0 || k > len(p) {
			k = len(p)
		}
		m, err := f.W.Write(p[:k])
		n += m
		if err != nil {
			return n, err
		}
		p = p[k:]
	}
	return n, nil
}
func (f *FragWriter) Close() error { return f.W.Close() }

// PipeSocket implements kapacitor.Socket over two in-memory pipes.
type PipeSocket struct {
	Pattern []int
	// Serve runs the agent side until its input ends.
	Serve func(in io.ReadCloser, out io.WriteCloser)

	mu      sync.Mutex
	toAgent *io.PipeWriter
	fromR   *io.PipeReader
	aIn     *io.PipeReader
	aOut    *io.PipeWriter
	Done    chan struct{}
}

func (s *PipeSocket) Open() error {
	s.mu.Lock()
	defer s.mu.Unlock()
	ar, kw := io.Pipe()
	kr, aw := io.Pipe()
	s.toAgent, s.fromR, s.aIn, s.aOut = kw, kr, ar, aw
	s.Done = make(chan struct{})
	go func() {
		defer close(s.Done)
		s.Serve(ar, &FragWriter{W: aw, Pattern: s.Pattern})
	}()
	return nil
}

func (s *PipeSocket) Close() error {
	s.mu.Lock()
	defer s.mu.Unlock()
	if s.toAgent != nil {
		s.toAgent.Close()
		s.fromR.Close()
		s.aIn.Close()
		s.aOut.Close()
	}
	return nil
}
func (s *PipeSocket) In() io.WriteCloser { return &FragWriter{W: s.toAgent, Pattern: s.Pattern} }
func (s *PipeSocket) Out() io.Reader     { return s.fromR }

// EchoHandler sends every point and batch back unchanged and keeps snapshot bytes.
type EchoHandler struct {
	A     *agent.Agent
	Wants agent.EdgeType
	State []byte
	mu    sync.Mutex
	// Requests seen, by kind, in order
	Log []string
}

func (h *EchoHandler) log(s string) { h.mu.Lock(); h.Log = append(h.Log, s); h.mu.Unlock() }
func (h *EchoHandler) LogCopy() []string {
	h.mu.Lock()
	defer h.mu.Unlock()
	return append([]string(nil), h.Log...)
}

func (h *EchoHandler) Info() (*agent.InfoResponse, error) {
	return &agent.InfoResponse{Wants: h.Wants, Provides: h.Wants, Options: map[string]*agent.OptionInfo{}}, nil
}
func (h *EchoHandler) Init(r *agent.InitRequest) (*agent.InitResponse, error) {
	h.log("init")
	return &agent.InitResponse{Success: true}, nil
}
func (h *EchoHandler) Snapshot() (*agent.SnapshotResponse, error) {
	h.log("snapshot")
	return &agent.SnapshotResponse{Snapshot: h.State}, nil
}
func (h *EchoHandler) Restore(r *agent.RestoreRequest) (*agent.RestoreResponse, error) {
	h.log("restore")
	h.State = append([]byte(nil), r.Snapshot...)
	return &agent.RestoreResponse{Success: true}, nil
}
func (h *EchoHandler) BeginBatch(b *agent.BeginBatch) error {
	h.log("begin")
	h.A.Responses <- &agent.Response{Message: &agent.Response_Begin{Begin: b}}
	return nil
}
func (h *EchoHandler) Point(p *agent.Point) error {
	h.log("point")
	h.A.Responses <- &agent.Response{Message: &agent.Response_Point{Point: p}}
	return nil
}
func (h *EchoHandler) EndBatch(e *agent.EndBatch) error {
	h.log("end")
	h.A.Responses <- &agent.Response{Message: &agent.Response_End{End: e}}
	return nil
}
func (h *EchoHandler) Stop() { close(h.A.Responses) }

// ServeEcho runs a real udf/agent Agent with an EchoHandler.
func ServeEcho(h *EchoHandler) func(in io.ReadCloser, out io.WriteCloser) {
	return func(in io.ReadCloser, out io.WriteCloser) {
		a := agent.New(in, out)
		h.A = a
		a.Handler = h
		if err := a.Start(); err != nil {
			return
		}
		a.Wait()
	}
}

// Service is a kapacitor.UDFService with one function "echo" (or whatever Serve implements).
type Service struct {
	Wants    agent.EdgeType
	Timeout  time.Duration
	Pattern  []int
	NewServe func() func(in io.ReadCloser, out io.WriteCloser)
	mu       sync.Mutex
	Sockets  []*PipeSocket
}

func (s *Service) List() []string { return []string{"echo"} }
func (s *Service) Info(name string) (udf.Info, bool) {
	if name != "echo" {
		return udf.Info{}, false
	}
	return udf.Info{Wants: s.Wants, Provides: s.Wants, Options: map[string]*agent.OptionInfo{}}, true
}
func (s *Service) Create(name, taskID, nodeID string, d udf.Diagnostic, abortCallback func()) (udf.Interface, error) {
	sock := &PipeSocket{Pattern: s.Pattern, Serve: s.NewServe()}
	s.mu.Lock()
	s.Sockets = append(s.Sockets, sock)
	s.mu.Unlock()
	return kapacitor.NewUDFSocket(taskID, nodeID, sock, d, s.Timeout, abortCallback), nil
}
